From ToughV Require Import Model.Base Model.Json Model.CJson Proofs.BaseP.
From Coq Require Import ZifyBool ZifyN ZifyNat Permutation Sorted.

(* ---------------------------------------------------------------------------------------- *)
(* induction principle for jv with Forall on the nested lists *)
Section jv_ind2.
  Variable P : jv -> Prop.
  Hypothesis HN : P JNull.
  Hypothesis HB : forall b, P (JBool b).
  Hypothesis HI : forall z, P (JInt z).
  Hypothesis HF : P JFloat.
  Hypothesis HS : forall s, P (JStr s).
  Hypothesis HA : forall l, Forall P l -> P (JArr l).
  Hypothesis HO : forall m, Forall (fun kv => P (snd kv)) m -> P (JObj m).
  Fixpoint jv_ind2 (v : jv) : P v :=
    match v with
    | JNull => HN | JBool b => HB b | JInt z => HI z | JFloat => HF | JStr s => HS s
    | JArr l => HA l ((fix go (l : list jv) : Forall P l :=
                         match l with
                         | [] => Forall_nil _
                         | x :: t => Forall_cons _ (jv_ind2 x) (go t)
                         end) l)
    | JObj m => HO m ((fix go (m : list (bytes * jv)) : Forall (fun kv => P (snd kv)) m :=
                         match m with
                         | [] => Forall_nil _
                         | kv :: t => Forall_cons _ (jv_ind2 (snd kv)) (go t)
                         end) m)
    end.
End jv_ind2.

(* named versions of the nested loops *)
Fixpoint emit_items (first : bool) (l : list jv) : list ev :=
  match l with
  | [] => []
  | x :: t => EBeginArrayValue first :: emit x ++ EEndArrayValue :: emit_items false t
  end.
Fixpoint emit_members (first : bool) (m : list (bytes * jv)) : list ev :=
  match m with
  | [] => []
  | (k, x) :: t => EBeginKey first :: emit_str k ++ EEndKey :: EBeginValue :: emit x
                   ++ EEndValue :: emit_members false t
  end.
Lemma emit_arr l : emit (JArr l) = EBeginArray :: emit_items true l ++ [EEndArray].
Proof. reflexivity. Qed.
Lemma emit_obj m : emit (JObj m) = EBeginObject :: emit_members true m ++ [EEndObject].
Proof. reflexivity. Qed.

Section SpecNames.
  Variable nfc : bytes -> bytes.
  Fixpoint spec_items (first : bool) (l : list jv) : option bytes :=
    match l with
    | [] => Some []
    | x :: t => match canon_spec nfc x, spec_items false t with
                | Some b, Some r => Some ((if first then [] else [44]) ++ b ++ r)
                | _, _ => None
                end
    end.
  Fixpoint spec_members (m : list (bytes * jv)) : option (list (bytes * bytes)) :=
    match m with
    | [] => Some []
    | (k, x) :: t => match canon_spec nfc x, spec_members t with
                     | Some b, Some r => Some ((nfc k, b) :: r)
                     | _, _ => None
                     end
    end.
  Lemma spec_arr l : canon_spec nfc (JArr l) =
    match spec_items true l with Some body => Some ([91] ++ body ++ [93]) | None => None end.
  Proof. reflexivity. Qed.
  Lemma spec_obj m : canon_spec nfc (JObj m) =
    match spec_members m with
    | Some es => Some ([123] ++ print_spec_members true (sort_members es) ++ [125])
    | None => None
    end.
  Proof. reflexivity. Qed.
End SpecNames.

(* ---------------------------------------------------------------------------------------- *)
(* writer algebra *)
Lemma wr_nil s : wr s [] = s.
Proof.
  destruct s as [u [|[mp k v d] t]]; unfold wr; cbn [stack out o_done o_map o_key o_val].
  - rewrite app_nil_r. reflexivity.
  - destruct d; rewrite app_nil_r; reflexivity.
Qed.

Lemma wr_wr s a b : wr (wr s a) b = wr s (a ++ b).
Proof.
  destruct s as [u [|[mp k v d] t]]; unfold wr; cbn [stack out o_done o_map o_key o_val].
  - rewrite app_assoc. reflexivity.
  - destruct d; cbn [stack out o_done o_map o_key o_val]; rewrite app_assoc; reflexivity.
Qed.

Section Run.
  Variable nfc : bytes -> bytes.
  Variable sortkey : bytes -> bytes.
  Notation run := (run nfc sortkey).
  Notation step := (step nfc sortkey).

  Lemma run_app s a b : run s (a ++ b) = match run s a with Some s' => run s' b | None => None end.
  Proof.
    revert s; induction a as [|e a IH]; intro s; cbn [app CJson.run]; [reflexivity|].
    destruct (step s e); [apply IH|reflexivity].
  Qed.

  Lemma run_cons s e r : run s (e :: r) = match step s e with Some s' => run s' r | None => None end.
  Proof. reflexivity. Qed.

  (* hypotheses on normalisation: it does not interact with the characters JSON escapes *)
  Hypothesis nfc_nil : nfc [] = [].
  Hypothesis nfc_split : forall a c b, needs_escape c = true -> nfc (a ++ c :: b) = nfc a ++ c :: nfc b.
  Hypothesis nfc_plain : forall a, Forall (fun c => needs_escape c = false) a ->
                                   Forall (fun c => needs_escape c = false) (nfc a).

  Lemma esc_plain a : Forall (fun c => needs_escape c = false) a -> esc a = a.
  Proof.
    induction 1 as [|c a Hc Ha IH]; [reflexivity|]. cbn [esc]. rewrite IH.
    unfold esc_byte. unfold needs_escape in Hc.
    apply orb_false_iff in Hc as [Hc1 Hc3]. apply orb_false_iff in Hc1 as [Hc1 Hc2].
    rewrite Hc2, Hc3. reflexivity.
  Qed.

  Lemma esc_app a b : esc (a ++ b) = esc a ++ esc b.
  Proof. induction a as [|c a IH]; [reflexivity|]. cbn [app esc]. rewrite IH, app_assoc. reflexivity. Qed.

  Lemma run_frag s acc : Forall (fun c => needs_escape c = false) acc ->
    run s (frag acc) = Some (wr s (esc (nfc (rev acc)))).
  Proof.
    intro H. destruct acc as [|c acc].
    - cbn [frag CJson.run rev]. rewrite nfc_nil. cbn [esc]. rewrite wr_nil. reflexivity.
    - cbn [frag CJson.run CJson.step]. rewrite esc_plain; [reflexivity|].
      apply nfc_plain. apply Forall_rev. exact H.
  Qed.

  Lemma run_split s0 : forall acc s, Forall (fun c => needs_escape c = false) acc ->
    run s (split_str acc s0) = Some (wr s (esc (nfc (rev acc ++ s0)))).
  Proof.
    induction s0 as [|c s0 IH]; intros acc s Hacc.
    - cbn [split_str]. rewrite app_nil_r. apply run_frag, Hacc.
    - cbn [split_str]. destruct (needs_escape c) eqn:E.
      + rewrite run_app, run_frag by exact Hacc. rewrite run_cons. cbn [CJson.step].
        rewrite (IH [] _ (Forall_nil _)). cbn [rev app]. rewrite !wr_wr.
        rewrite nfc_split by exact E. rewrite esc_app. cbn [esc]. rewrite <- ?app_assoc. reflexivity.
      + rewrite IH by (constructor; assumption). cbn [rev]. rewrite <- app_assoc. reflexivity.
  Qed.

  Lemma run_emit_str s k : run s (emit_str k) = Some (wr s (quote (nfc k))).
  Proof.
    unfold emit_str. rewrite run_cons. cbn [CJson.step].
    rewrite run_app, (run_split k [] _ (Forall_nil _)). cbn [rev app CJson.run CJson.step].
    rewrite !wr_wr. reflexivity.
  Qed.

  (* ------------------------------------------------------------------------------------ *)
  (* the formatter computes the specification, provided the sort key of a serialized key is the key *)
  Hypothesis sortkey_quote : forall k, sortkey (quote k) = k.

  Definition run_ok (v : jv) : Prop := forall s,
    run s (emit v) = match canon_spec nfc v with Some b => Some (wr s b) | None => None end.

  Lemma run_items l : Forall run_ok l -> forall first s,
    run s (emit_items first l) =
    match spec_items nfc first l with Some b => Some (wr s b) | None => None end.
  Proof.
    induction 1 as [|x l Hx Hl IH]; intros first s.
    - cbn [emit_items spec_items CJson.run]. rewrite wr_nil. reflexivity.
    - cbn [emit_items spec_items]. rewrite run_cons. cbn [CJson.step].
      rewrite run_app. rewrite Hx. destruct (canon_spec nfc x) as [b|]; [|reflexivity].
      rewrite run_cons. cbn [CJson.step]. rewrite IH.
      destruct (spec_items nfc false l) as [r|]; [|reflexivity].
      destruct first; rewrite ?wr_wr; cbn [app]; rewrite ?wr_wr; reflexivity.
  Qed.

  Definition ins_entry (acc : list (bytes * (bytes * bytes))) (kb : bytes * bytes) :=
    bt_insert (fst kb) (quote (fst kb), snd kb) acc.

  Definition mkst u mp k v d t : st :=
    {| out := u; stack := {| o_map := mp; o_key := k; o_val := v; o_done := d |} :: t |}.
  Lemma step_BK f u mp k v d t : step (mkst u mp k v d t) (EBeginKey f) = Some (mkst u mp k v false t).
  Proof. reflexivity. Qed.
  Lemma step_EK u mp k v d t : step (mkst u mp k v d t) EEndKey = Some (mkst u mp k v true t).
  Proof. reflexivity. Qed.
  Lemma step_EV u mp k v d t : step (mkst u mp k v d t) EEndValue =
    Some (mkst u (bt_insert (sortkey k) (k, v) mp) [] [] d t).
  Proof. reflexivity. Qed.
  Lemma wr_key u mp k v t b : wr (mkst u mp k v false t) b = mkst u mp (k ++ b) v false t.
  Proof. reflexivity. Qed.
  Lemma wr_val u mp k v t b : wr (mkst u mp k v true t) b = mkst u mp k (v ++ b) true t.
  Proof. reflexivity. Qed.

  Lemma run_members m : Forall (fun kv => run_ok (snd kv)) m -> forall first u mp d t,
    run (mkst u mp [] [] d t) (emit_members first m) =
    match spec_members nfc m with
    | Some es => Some (mkst u (fold_left ins_entry es mp) [] [] (match m with [] => d | _ => true end) t)
    | None => None
    end.
  Proof.
    induction 1 as [|[k x] m Hx Hm IH]; intros first u mp d t.
    - reflexivity.
    - cbn [emit_members spec_members snd] in *. rewrite run_cons, step_BK.
      rewrite run_app, run_emit_str, wr_key. cbn [app].
      rewrite run_cons, step_EK. rewrite run_cons. cbn [CJson.step].
      rewrite run_app, Hx. destruct (canon_spec nfc x) as [b|]; [|reflexivity].
      rewrite wr_val. cbn [app]. rewrite run_cons, step_EV.
      rewrite IH. destruct (spec_members nfc m) as [es|]; [|reflexivity].
      cbn [fold_left]. unfold ins_entry at 2. cbn [fst snd]. rewrite sortkey_quote.
      destruct m; reflexivity.
  Qed.

  Definition lift_entry (kb : bytes * bytes) : bytes * (bytes * bytes) :=
    (fst kb, (quote (fst kb), snd kb)).

  Lemma bt_insert_lift k b m :
    bt_insert k (quote k, b) (map lift_entry m) = map lift_entry (bt_insert k b m).
  Proof.
    induction m as [|[k' b'] m IH]; [reflexivity|].
    cbn [map bt_insert lift_entry fst snd]. destruct (lex_ltb k k'); [reflexivity|].
    destruct (bytes_eqb k k'); [reflexivity|]. cbn [map lift_entry fst snd]. rewrite <- IH. reflexivity.
  Qed.

  Lemma fold_ins_lift es : forall acc,
    fold_left ins_entry es (map lift_entry acc) =
    map lift_entry (fold_left (fun a kv => bt_insert (fst kv) (snd kv) a) es acc).
  Proof.
    induction es as [|[k b] es IH]; intro acc; [reflexivity|].
    cbn [fold_left]. unfold ins_entry at 2. cbn [fst snd]. rewrite bt_insert_lift. apply IH.
  Qed.

  Lemma print_lift m : forall first, print_members first (map lift_entry m) = print_spec_members first m.
  Proof.
    induction m as [|[k b] m IH]; intro first; [reflexivity|].
    cbn [map lift_entry print_members print_spec_members fst snd]. rewrite IH. reflexivity.
  Qed.

  Theorem run_emit_spec v : run_ok v.
  Proof.
    induction v as [| b | z | | k | l IHl | m IHm] using jv_ind2; intro s.
    - reflexivity.
    - destruct b; reflexivity.
    - reflexivity.
    - reflexivity.
    - apply run_emit_str.
    - rewrite emit_arr, spec_arr, run_cons. cbn [CJson.step]. rewrite run_app, run_items by exact IHl.
      destruct (spec_items nfc true l) as [body|]; [|reflexivity].
      cbn [CJson.run CJson.step]. rewrite !wr_wr. reflexivity.
    - rewrite emit_obj, spec_obj, run_cons. cbn [CJson.step]. rewrite run_app.
      change {| out := out (wr s [123]); stack := obj0 :: stack (wr s [123]) |}
        with (mkst (out (wr s [123])) (map lift_entry []) [] [] false (stack (wr s [123]))).
      rewrite run_members by exact IHm.
      destruct (spec_members nfc m) as [es|]; [|reflexivity].
      unfold mkst. cbn [CJson.run CJson.step stack out o_map]. rewrite fold_ins_lift, print_lift.
      unfold sort_members.
      replace {| out := out (wr s [123]); stack := stack (wr s [123]) |} with (wr s [123])
        by (destruct (wr s [123]); reflexivity).
      rewrite wr_wr. reflexivity.
  Qed.
End Run.

(* unescape_key inverts the serialisation of a key *)
Lemma unesc_esc k : unesc (esc k) = k.
Proof.
  induction k as [|c k IH]; [reflexivity|]. cbn [esc]. unfold esc_byte.
  destruct ((c =? 34) || (c =? 92)) eqn:E.
  - cbn [app unesc]. change (92 =? 92) with true. cbv iota. rewrite IH. reflexivity.
  - cbn [app unesc]. apply orb_false_iff in E as [_ E]. rewrite E, IH. reflexivity.
Qed.

Lemma strip_quotes_quote k : strip_quotes (quote k) = esc k.
Proof.
  unfold quote, strip_quotes. cbn [app]. change (34 =? 34) with true. cbv iota.
  rewrite rev_app_distr. cbn [rev app]. change (34 =? 34) with true. cbv iota.
  apply rev_involutive.
Qed.

Lemma unescape_key_quote k : unescape_key (quote k) = k.
Proof. unfold unescape_key. rewrite strip_quotes_quote. apply unesc_esc. Qed.

Theorem canon_impl_is_spec nfc :
  nfc [] = [] ->
  (forall a c b, needs_escape c = true -> nfc (a ++ c :: b) = nfc a ++ c :: nfc b) ->
  (forall a, Forall (fun c => needs_escape c = false) a -> Forall (fun c => needs_escape c = false) (nfc a)) ->
  forall v, canon_impl nfc v = canon_spec nfc v.
Proof.
  intros H0 H1 H2 v. unfold canon_impl, canon_run.
  rewrite (run_emit_spec nfc unescape_key H0 H1 H2 unescape_key_quote v st0).
  destruct (canon_spec nfc v) as [b|]; [|reflexivity]. reflexivity.
Qed.

(* ---------------------------------------------------------------------------------------- *)
(* what sort_members means: strictly sorted by key, and a permutation when keys are distinct *)
Section Sorting.
  Context {V : Type}.
  Definition klt (a b : bytes * V) : Prop := lex_ltb (fst a) (fst b) = true.

  Lemma klt_trans a b c : klt a b -> klt b c -> klt a c.
  Proof. unfold klt. apply lex_ltb_trans. Qed.

  Lemma bt_insert_hdrel a k (v : V) m : klt a (k, v) -> HdRel klt a m -> HdRel klt a (bt_insert k v m).
  Proof.
    intros Ha H. destruct m as [|[k' v'] t]; cbn [bt_insert]; [constructor; exact Ha|].
    destruct (lex_ltb k k'); [constructor; exact Ha|].
    destruct (bytes_eqb k k'); constructor; [exact Ha|]. inversion H; assumption.
  Qed.

  Lemma bt_insert_sorted k (v : V) m : Sorted klt m -> Sorted klt (bt_insert k v m).
  Proof.
    induction 1 as [|[k' v'] l Hl IH Hhd]; cbn [bt_insert]; [repeat constructor|].
    destruct (lex_ltb k k') eqn:E1.
    - constructor; [constructor; assumption|]. constructor. exact E1.
    - destruct (bytes_eqb k k') eqn:E2.
      + apply bytes_eqb_eq in E2. subst k'. constructor; [assumption|].
        destruct l; constructor. inversion Hhd; assumption.
      + constructor; [exact IH|]. apply bt_insert_hdrel; [|exact Hhd].
        unfold klt. cbn [fst]. destruct (lex_ltb k' k) eqn:E3; [reflexivity|].
        apply bytes_eqb_neq in E2. exfalso. apply E2. apply lex_ltb_total; assumption.
  Qed.

  Lemma bt_insert_perm k (v : V) m : ~ In k (map fst m) -> Permutation ((k, v) :: m) (bt_insert k v m).
  Proof.
    induction m as [|[k' v'] t IH]; intro N; cbn [bt_insert]; [reflexivity|].
    destruct (lex_ltb k k'); [reflexivity|].
    destruct (bytes_eqb k k') eqn:E.
    - apply bytes_eqb_eq in E. subst. exfalso. apply N. left. reflexivity.
    - rewrite perm_swap. apply perm_skip. apply IH. intro H. apply N. right. exact H.
  Qed.

  Definition ins (acc : list (bytes * V)) (kv : bytes * V) := bt_insert (fst kv) (snd kv) acc.

  Lemma fold_ins_sorted m : forall acc, Sorted klt acc -> Sorted klt (fold_left ins m acc).
  Proof.
    induction m as [|[k v] m IH]; intros acc H; [exact H|]. cbn [fold_left]. apply IH.
    apply bt_insert_sorted, H.
  Qed.

  Lemma fold_ins_perm m : forall acc, NoDup (map fst (m ++ acc)) ->
    Permutation (m ++ acc) (fold_left ins m acc).
  Proof.
    induction m as [|[k v] m IH]; intros acc H; [reflexivity|]. cbn [fold_left app].
    unfold ins at 2. cbn [fst snd].
    assert (Hk : ~ In k (map fst acc)).
    { cbn [app map fst] in H. inversion H as [|? ? Hn Hd]; subst. intro Hin. apply Hn.
      rewrite map_app. apply in_or_app. right. exact Hin. }
    assert (P : Permutation ((k, v) :: m ++ acc) (m ++ bt_insert k v acc)).
    { rewrite <- (bt_insert_perm k v acc Hk). apply Permutation_middle. }
    rewrite P. apply IH.
    eapply Permutation_NoDup; [|exact H]. apply Permutation_map. cbn [app]. exact P.
  Qed.

  Lemma sort_members_sorted (m : list (bytes * V)) : Sorted klt (sort_members m).
  Proof. apply fold_ins_sorted. constructor. Qed.

  Lemma sort_members_perm (m : list (bytes * V)) : NoDup (map fst m) -> Permutation m (sort_members m).
  Proof.
    intro H. unfold sort_members. rewrite <- fold_ins_perm; rewrite app_nil_r; [reflexivity|exact H].
  Qed.

  Lemma klt_irrefl a : ~ klt a a.
  Proof. unfold klt. rewrite lex_ltb_irrefl. discriminate. Qed.

  Lemma sorted_perm_eq (m1 : list (bytes * V)) : forall m2,
    StronglySorted klt m1 -> StronglySorted klt m2 -> Permutation m1 m2 -> m1 = m2.
  Proof.
    induction m1 as [|a m1 IH]; intros m2 S1 S2 P.
    - apply Permutation_nil in P. subst. reflexivity.
    - destruct m2 as [|b m2]; [apply Permutation_sym, Permutation_nil in P; discriminate|].
      inversion S1 as [|? ? S1' F1]; subst. inversion S2 as [|? ? S2' F2]; subst.
      assert (a = b).
      { assert (Ha : In a (b :: m2)) by (eapply Permutation_in; [exact P|left; reflexivity]).
        assert (Hb : In b (a :: m1)) by (eapply Permutation_in; [apply Permutation_sym, P|left; reflexivity]).
        destruct Ha as [Ha|Ha]; [auto|]. destruct Hb as [Hb|Hb]; [auto|].
        rewrite Forall_forall in F1, F2. exfalso.
        apply (klt_irrefl a). eapply klt_trans; [apply F1, Hb|apply F2, Ha]. }
      subst b. f_equal. apply IH; try assumption. eapply Permutation_cons_inv. exact P.
  Qed.

  Theorem sort_members_order_independent (m1 m2 : list (bytes * V)) :
    Permutation m1 m2 -> NoDup (map fst m1) -> sort_members m1 = sort_members m2.
  Proof.
    intros P N.
    assert (N2 : NoDup (map fst m2)) by (eapply Permutation_NoDup; [apply Permutation_map, P|exact N]).
    apply sorted_perm_eq.
    - apply Sorted_StronglySorted; [exact klt_trans|apply sort_members_sorted].
    - apply Sorted_StronglySorted; [exact klt_trans|apply sort_members_sorted].
    - rewrite <- (sort_members_perm m1 N), <- (sort_members_perm m2 N2). exact P.
  Qed.
End Sorting.

(* ---------------------------------------------------------------------------------------- *)
(* the canonical form of an object does not depend on the order in which members were inserted *)
Section Order.
  Variable nfc : bytes -> bytes.

  Lemma spec_members_keys m es : spec_members nfc m = Some es -> map fst es = map (fun kv => nfc (fst kv)) m.
  Proof.
    revert es; induction m as [|[k x] m IH]; intros es H; cbn [spec_members] in H.
    - inversion H. reflexivity.
    - destruct (canon_spec nfc x); [|discriminate]. destruct (spec_members nfc m) as [r|]; [|discriminate].
      inversion H; subst. cbn [map fst]. f_equal. apply IH. reflexivity.
  Qed.

  Lemma spec_members_perm m1 m2 : Permutation m1 m2 ->
    match spec_members nfc m1, spec_members nfc m2 with
    | Some e1, Some e2 => Permutation e1 e2
    | None, None => True
    | _, _ => False
    end.
  Proof.
    induction 1 as [|[k x] a b P IH|[k1 x1] [k2 x2] a|a b c P1 IH1 P2 IH2].
    - cbn. constructor.
    - cbn [spec_members]. destruct (canon_spec nfc x);
        destruct (spec_members nfc a), (spec_members nfc b); try exact I; try contradiction.
      apply perm_skip, IH.
    - cbn [spec_members]. destruct (canon_spec nfc x1), (canon_spec nfc x2), (spec_members nfc a);
        try exact I. apply perm_swap.
    - destruct (spec_members nfc a), (spec_members nfc b), (spec_members nfc c);
        try exact I; try contradiction. eapply perm_trans; eassumption.
  Qed.

  Theorem canon_spec_members_order m1 m2 :
    Permutation m1 m2 -> NoDup (map (fun kv => nfc (fst kv)) m1) ->
    canon_spec nfc (JObj m1) = canon_spec nfc (JObj m2).
  Proof.
    intros P N. rewrite !spec_obj. pose proof (spec_members_perm _ _ P) as H.
    destruct (spec_members nfc m1) as [e1|] eqn:E1, (spec_members nfc m2) as [e2|]; try contradiction;
      [|reflexivity].
    rewrite (sort_members_order_independent e1 e2 H); [reflexivity|].
    rewrite (spec_members_keys _ _ E1). exact N.
  Qed.

  (* compositionality: the bytes of a compound value are a function of the bytes of its parts *)
  Lemma spec_items_ext l1 l2 : Forall2 (fun a b => canon_spec nfc a = canon_spec nfc b) l1 l2 ->
    forall first, spec_items nfc first l1 = spec_items nfc first l2.
  Proof.
    induction 1 as [|a b l1 l2 H F IH]; intro first; [reflexivity|].
    cbn [spec_items]. rewrite H, IH. reflexivity.
  Qed.

  Theorem canon_spec_arr_ext l1 l2 : Forall2 (fun a b => canon_spec nfc a = canon_spec nfc b) l1 l2 ->
    canon_spec nfc (JArr l1) = canon_spec nfc (JArr l2).
  Proof. intro H. rewrite !spec_arr, (spec_items_ext _ _ H). reflexivity. Qed.

  Theorem canon_spec_obj_ext m1 m2 :
    Forall2 (fun a b => nfc (fst a) = nfc (fst b) /\ canon_spec nfc (snd a) = canon_spec nfc (snd b)) m1 m2 ->
    canon_spec nfc (JObj m1) = canon_spec nfc (JObj m2).
  Proof.
    intro H. rewrite !spec_obj. replace (spec_members nfc m2) with (spec_members nfc m1); [reflexivity|].
    induction H as [|[k1 x1] [k2 x2] m1 m2 [Hk Hx] F IH]; [reflexivity|].
    cbn [spec_members fst snd] in *. rewrite Hk, Hx, IH. reflexivity.
  Qed.

  (* the keys of the output are strictly increasing (in byte order of the normalised key) *)
  Theorem canon_spec_obj_sorted m es : spec_members nfc m = Some es ->
    canon_spec nfc (JObj m) = Some ([123] ++ print_spec_members true (sort_members es) ++ [125])
    /\ Sorted klt (sort_members es)
    /\ (NoDup (map (fun kv => nfc (fst kv)) m) -> Permutation es (sort_members es)).
  Proof.
    intro H. rewrite spec_obj, H. split; [reflexivity|]. split; [apply sort_members_sorted|].
    intro N. apply sort_members_perm. rewrite (spec_members_keys _ _ H). exact N.
  Qed.

  (* floats are refused wherever they occur *)
  Inductive has_float : jv -> Prop :=
  | hf_here : has_float JFloat
  | hf_arr l x : In x l -> has_float x -> has_float (JArr l)
  | hf_obj m k x : In (k, x) m -> has_float x -> has_float (JObj m).

  Lemma spec_items_none l x : In x l -> canon_spec nfc x = None -> forall first, spec_items nfc first l = None.
  Proof.
    induction l as [|y l IH]; intros Hin Hx first; [contradiction|].
    cbn [spec_items]. destruct Hin as [->|Hin].
    - rewrite Hx. reflexivity.
    - rewrite (IH Hin Hx). destruct (canon_spec nfc y); reflexivity.
  Qed.

  Lemma spec_members_none m k x : In (k, x) m -> canon_spec nfc x = None -> spec_members nfc m = None.
  Proof.
    induction m as [|[k' y] m IH]; intros Hin Hx; [contradiction|].
    cbn [spec_members]. destruct Hin as [E|Hin].
    - inversion E; subst. rewrite Hx. reflexivity.
    - rewrite (IH Hin Hx). destruct (canon_spec nfc y); reflexivity.
  Qed.

  Theorem canon_spec_float_refused v : has_float v -> canon_spec nfc v = None.
  Proof.
    induction 1 as [|l x Hin Hf IH|m k x Hin Hf IH].
    - reflexivity.
    - rewrite spec_arr, (spec_items_none _ _ Hin IH). reflexivity.
    - rewrite spec_obj, (spec_members_none _ _ _ Hin IH). reflexivity.
  Qed.
End Order.

(* the formatter as it was before the repair of F6 does not compute the specification *)
Definition f6_witness : jv := JObj [([97], JInt 1); ([97; 33], JInt 2)].
Lemma canon_impl_old_refuted :
  canon_impl_old (fun s => s) f6_witness <> canon_spec (fun s => s) f6_witness
  /\ canon_impl_old (fun s => s) f6_witness
     = Some [123; 34; 97; 33; 34; 58; 50; 44; 34; 97; 34; 58; 49; 125].
Proof. split; [vm_compute; discriminate|vm_compute; reflexivity]. Qed.
