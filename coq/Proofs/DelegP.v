(* Glob matching equals the usual inductive definition of wildcard matching; target lookup through a
   delegation tree returns the first authorised entry in pre-order; validate. *)
From ToughV Require Import Model.Base Model.Sig Model.Glob Model.Deleg Proofs.BaseP.
From Coq Require Import ZifyBool ZifyN ZifyNat.

(* ---------------------------------------------------------------------------------------- *)
(* wildcard matching: '*' (42) matches any string, '?' (63) any one character, both across '/' *)
Inductive gmatch : bytes -> bytes -> Prop :=
| gm_nil : gmatch [] []
| gm_star_skip p s : gmatch p s -> gmatch (42 :: p) s
| gm_star_eat p c s : gmatch (42 :: p) s -> gmatch (42 :: p) (c :: s)
| gm_quest p c s : gmatch p s -> gmatch (63 :: p) (c :: s)
| gm_lit p c s : c <> 42 -> gmatch p s -> gmatch (c :: p) (c :: s).

Lemma glob_match_sound fuel : forall p s, glob_match fuel p s = true -> gmatch p s.
Proof.
  induction fuel as [|f IH]; intros p s H; [discriminate|]. cbn [glob_match] in H.
  destruct p as [|c p'].
  - destruct s; [constructor|discriminate].
  - destruct (c =? 42) eqn:E42.
    + apply N.eqb_eq in E42. subst c. apply orb_true_iff in H as [H|H].
      * apply gm_star_skip, IH, H.
      * destruct s as [|d s']; [discriminate|]. apply gm_star_eat, IH, H.
    + destruct s as [|d s']; [discriminate|]. apply N.eqb_neq in E42.
      destruct ((c =? 63) || (c =? d)) eqn:E; [|discriminate].
      apply orb_true_iff in E as [E|E]; apply N.eqb_eq in E; subst c.
      * apply gm_quest, IH, H.
      * apply gm_lit; [exact E42|apply IH, H].
Qed.

Lemma glob_match_complete p s : gmatch p s ->
  forall fuel, (length p + length s < fuel)%nat -> glob_match fuel p s = true.
Proof.
  induction 1 as [|p s H IH|p c s H IH|p c s H IH|p c s Hc H IH]; intros fuel Hf;
    (destruct fuel as [|f]; [cbn in Hf; lia|]); cbn [glob_match].
  - reflexivity.
  - change (42 =? 42) with true. cbv iota. rewrite IH by (cbn in Hf; lia). reflexivity.
  - change (42 =? 42) with true. cbv iota. rewrite (IH f) by (cbn in *; lia). apply orb_true_r.
  - change (63 =? 42) with false. cbv iota. change (63 =? 63) with true. cbn [orb].
    apply IH. cbn in Hf. lia.
  - assert (c =? 42 = false) as -> by (apply N.eqb_neq; exact Hc).
    rewrite N.eqb_refl, orb_true_r. apply IH. cbn in Hf. lia.
Qed.

Theorem glob_spec p s : glob p s = true <-> gmatch p s.
Proof.
  unfold glob. split; [apply glob_match_sound|]. intro H. apply glob_match_complete; [exact H|lia].
Qed.

(* ---------------------------------------------------------------------------------------- *)
(* induction principle for the rose tree of roles *)
Section targets_ind2.
  Variable P : targets -> Prop.
  Hypothesis Hstep : forall v e en h k roles s,
    Forall (fun hc => match snd hc with Some c => P c | None => True end) roles ->
    P (Targets v e en h k roles s).
  Fixpoint targets_ind2 (t : targets) : P t :=
    match t with
    | Targets v e en h k roles s =>
        Hstep v e en h k roles s
          ((fix go (l : list (dhdr * option targets)) :
              Forall (fun hc => match snd hc with Some c => P c | None => True end) l :=
              match l with
              | [] => Forall_nil _
              | (hd, Some c) :: r => Forall_cons (hd, Some c) (targets_ind2 c) (go r)
              | (hd, None) :: r => Forall_cons (hd, None) I (go r)
              end) roles)
    end.
End targets_ind2.

(* the authorised entries for a name, in pre-order: the role's own entry, then, for each delegation in
   listed order whose paths match the name, the authorised entries of the delegated role *)
Fixpoint auth_entries (n : tname) (t : targets) : list tinfo :=
  let 'Targets _ _ entries has_deleg _ roles _ := t in
  (match lookup_target n entries with Some i => [i] | None => [] end) ++
  (if has_deleg then
     (fix go (roles : list (dhdr * option targets)) : list tinfo :=
        match roles with
        | [] => []
        | (h, c) :: rest =>
            (if pathset_matches (dh_paths h) n
             then match c with Some child => auth_entries n child | None => [] end
             else []) ++ go rest
        end) roles
   else []).

Fixpoint auth_roles (n : tname) (roles : list (dhdr * option targets)) : list tinfo :=
  match roles with
  | [] => []
  | (h, c) :: rest =>
      (if pathset_matches (dh_paths h) n
       then match c with Some child => auth_entries n child | None => [] end
       else []) ++ auth_roles n rest
  end.

Lemma auth_entries_eq n v e en h k roles s :
  auth_entries n (Targets v e en h k roles s)
  = (match lookup_target n en with Some i => [i] | None => [] end) ++ (if h then auth_roles n roles else []).
Proof.
  cbn [auth_entries]. f_equal. destruct h; [|reflexivity].
  induction roles as [|[hd c] r IH]; [reflexivity|]. cbn [auth_roles]. rewrite <- IH. reflexivity.
Qed.

Fixpoint find_roles (n : tname) (roles : list (dhdr * option targets)) : option tinfo :=
  match roles with
  | [] => None
  | (h, c) :: rest =>
      if pathset_matches (dh_paths h) n then
        match c with
        | Some child => match find_target n child with Some i => Some i | None => find_roles n rest end
        | None => find_roles n rest
        end
      else find_roles n rest
  end.

Lemma find_target_eq n v e en h k roles s :
  find_target n (Targets v e en h k roles s)
  = match lookup_target n en with
    | Some i => Some i
    | None => if h then find_roles n roles else None
    end.
Proof.
  cbn [find_target]. destruct (lookup_target n en); [reflexivity|]. destruct h; [|reflexivity].
  induction roles as [|[hd c] r IH]; [reflexivity|]. cbn [find_roles]. rewrite <- IH. reflexivity.
Qed.

(* C07: the entry a target is served from is the first authorised one in pre-order *)
Theorem find_is_first_authorised n t : find_target n t = hd_error (auth_entries n t).
Proof.
  induction t as [v e en h k roles s IH] using targets_ind2.
  rewrite find_target_eq, auth_entries_eq.
  destruct (lookup_target n en) as [i|]; [reflexivity|]. cbn [app].
  destruct h; [|reflexivity].
  induction IH as [|[hd c] r Hc Hr IHr]; [reflexivity|].
  cbn [find_roles auth_roles]. cbn [snd] in Hc.
  destruct (pathset_matches (dh_paths hd) n); [|exact IHr].
  destruct c as [child|]; [|exact IHr].
  rewrite Hc. destruct (auth_entries n child) as [|i l]; [exact IHr|reflexivity].
Qed.

(* an authorised entry is reached through a chain of delegations each of which matches the name *)
Inductive reachable (n : tname) : targets -> tinfo -> Prop :=
| reach_own t i : lookup_target n (tg_entries t) = Some i -> reachable n t i
| reach_via t h child i :
    tg_has_deleg t = true -> In (h, Some child) (tg_roles t) ->
    pathset_matches (dh_paths h) n = true -> reachable n child i -> reachable n t i.

Theorem auth_entries_reachable n t : forall i, In i (auth_entries n t) -> reachable n t i.
Proof.
  induction t as [v e en h k roles s IH] using targets_ind2. intro i. rewrite auth_entries_eq.
  intro H. apply in_app_or in H as [H|H].
  - destruct (lookup_target n en) as [j|] eqn:E; [|contradiction]. destruct H as [->|[]].
    apply reach_own. exact E.
  - destruct h; [|contradiction].
    assert (G : forall r, Forall (fun hc => match snd hc with Some c => forall i0, In i0 (auth_entries n c) -> reachable n c i0 | None => True end) r ->
              (forall x, In x r -> In x roles) -> In i (auth_roles n r) ->
              reachable n (Targets v e en true k roles s) i).
    { induction 1 as [|[hd c] r Hc Hr IHr]; intros Hsub Hin; [contradiction|].
      cbn [auth_roles] in Hin. apply in_app_or in Hin as [Hin|Hin].
      - destruct (pathset_matches (dh_paths hd) n) eqn:M; [|contradiction].
        destruct c as [child|]; [|contradiction]. cbn [snd] in Hc.
        eapply reach_via; [reflexivity|apply Hsub; left; reflexivity|exact M|apply Hc, Hin].
      - apply IHr; [|exact Hin]. intros x Hx. apply Hsub. right. exact Hx. }
    apply (G roles IH (fun x Hx => Hx) H).
Qed.

Theorem find_target_reachable n t i : find_target n t = Some i -> reachable n t i.
Proof.
  rewrite find_is_first_authorised. intro H. apply auth_entries_reachable.
  destruct (auth_entries n t) as [|j l]; [discriminate|]. inversion H. left. reflexivity.
Qed.

(* validate: every name listed anywhere in the tree is served from an authorised entry *)
Theorem validate_spec t : validate t = true ->
  forall n i, In (n, i) (targets_iter t) -> exists j, find_target n t = Some j /\ reachable n t j.
Proof.
  unfold validate. intros H n i Hin. rewrite forallb_forall in H. specialize (H (n, i) Hin). cbn [fst] in H.
  destruct (find_target n t) as [j|] eqn:E; [|discriminate]. exists j. split; [reflexivity|].
  apply find_target_reachable, E.
Qed.

Example glob_examples :
  glob [42; 46; 116; 103; 122] [116; 47; 102; 46; 116; 103; 122] = true   (* "*.tgz" matches "t/f.tgz" *)
  /\ glob [97; 63; 99] [97; 47; 99] = true                                 (* "a?c" matches "a/c" *)
  /\ glob [97; 63; 99] [97; 99] = false.
Proof. repeat split; vm_compute; reflexivity. Qed.
