(* Proofs about Model/RootCmd.v (property C20): the invariant of `tuftool root` command histories,
   self-verification after a plain `sign` (repaired variant; refuted for the original one), and the
   error case. *)
From ToughV Require Import Model.Base Model.Sig Model.RootCmd Proofs.SigP.
From Coq Require Import ZifyBool ZifyN ZifyNat.

(* ---------------------------------------------------------------------------------------- *)
(* generic list facts *)
Lemma list_eqb_refl {A} (e : A -> A -> bool) l : (forall x, e x x = true) -> list_eqb e l l = true.
Proof.
  intro H. induction l as [|x l IH]; cbn [list_eqb]; [reflexivity|]. rewrite H, IH. reflexivity.
Qed.

Lemma body_eqb_refl b : body_eqb b b = true.
Proof.
  assert (H1 : list_eqb pair_eqb (rb_keys b) (rb_keys b) = true).
  { apply list_eqb_refl. intros [a c]. unfold pair_eqb. cbn [fst snd]. rewrite !N.eqb_refl. reflexivity. }
  assert (H2 : list_eqb role_eqb (rb_roles b) (rb_roles b) = true).
  { apply list_eqb_refl. intros [r rk]. unfold role_eqb, rk_eqb. cbn [fst snd].
    rewrite !N.eqb_refl, list_eqb_refl; [reflexivity|apply N.eqb_refl]. }
  unfold body_eqb. rewrite !N.eqb_refl, H1, H2. reflexivity.
Qed.

Lemma NoDup_snoc {A} (l : list A) x : NoDup l -> ~ In x l -> NoDup (l ++ [x]).
Proof.
  induction l as [|y l IH]; intros Hn Hx; cbn [app].
  - constructor; [intros []|constructor].
  - inversion Hn as [|? ? Hy Hl]; subst. constructor.
    + rewrite in_app_iff. intros [H|[H|[]]]; [exact (Hy H)|]. subst. apply Hx. left. reflexivity.
    + apply IH; [exact Hl|]. intro H. apply Hx. right. exact H.
Qed.

Lemma NoDup_map_filter {A B} (f : A -> B) (p : A -> bool) l :
  NoDup (map f l) -> NoDup (map f (filter p l)).
Proof.
  induction l as [|x l IH]; intro H; cbn [filter map]; [constructor|].
  cbn [map] in H. inversion H as [|? ? Hx Hl]; subst.
  destruct (p x); [|exact (IH Hl)]. cbn [map]. constructor; [|exact (IH Hl)].
  intro Hin. apply Hx. apply in_map_iff in Hin as (y & Hy & Hf). apply filter_In in Hf as [Hf _].
  apply in_map_iff. exists y. split; assumption.
Qed.

Lemma remove_first_incl x l : incl (remove_first x l) l.
Proof.
  induction l as [|y l IH]; cbn [remove_first]; [apply incl_refl|].
  destruct (y =? x); [apply incl_tl, incl_refl|].
  intros z [->|Hz]; [left; reflexivity|right; exact (IH z Hz)].
Qed.

Lemma remove_first_NoDup x l : NoDup l -> NoDup (remove_first x l) /\ ~ In x (remove_first x l).
Proof.
  induction l as [|y l IH]; intro H; cbn [remove_first]; [split; [constructor|intros []]|].
  inversion H as [|? ? Hy Hl]; subst. destruct (N.eqb_spec y x) as [->|Hne].
  - split; assumption.
  - destruct (IH Hl) as [H1 H2]. split.
    + constructor; [|exact H1]. intro Hin. apply Hy. exact (remove_first_incl _ _ _ Hin).
    + intros [Heq|Hin]; [exact (Hne Heq)|exact (H2 Hin)].
Qed.

(* ---------------------------------------------------------------------------------------- *)
(* tables *)
Lemma id_of_key_In k t i : id_of_key k t = Some i -> In (i, k) t.
Proof.
  induction t as [|[i' k'] t IH]; cbn [id_of_key fst snd]; [discriminate|].
  destruct (N.eqb_spec k' k) as [->|_].
  - intro H. injection H as ->. left. reflexivity.
  - intro H. right. exact (IH H).
Qed.

Lemma find_role_In r l rk : find_role r l = Some rk -> In (r, rk) l.
Proof.
  induction l as [|[r' rk'] l IH]; cbn [find_role fst snd]; [discriminate|].
  destruct (N.eqb_spec r' r) as [->|_].
  - intro H. injection H as ->. left. reflexivity.
  - intro H. right. exact (IH H).
Qed.

Lemma upd_role_Forall (P : N * rolekeys -> Prop) r f d l :
  P (r, f d) -> (forall rk, P (r, rk) -> P (r, f rk)) ->
  Forall P l -> Forall P (upd_role r f d l).
Proof.
  intros Hd Hf. induction l as [|[r' rk'] l IH]; intro H; cbn [upd_role fst snd].
  - constructor; [exact Hd|constructor].
  - inversion H as [|? ? He Hl]; subst. destruct (N.eqb_spec r' r) as [->|_].
    + constructor; [exact (Hf _ He)|exact Hl].
    + constructor; [exact He|exact (IH Hl)].
Qed.

Lemma mod_role_Forall (P : N * rolekeys -> Prop) r f l :
  (forall rk, P (r, rk) -> P (r, f rk)) -> Forall P l -> Forall P (mod_role r f l).
Proof.
  intros Hf H. unfold mod_role. apply Forall_forall. intros e He.
  apply in_map_iff in He as ([r' rk'] & <- & Hin). rewrite Forall_forall in H. specialize (H _ Hin).
  cbn [fst snd]. destruct (N.eqb_spec r' r) as [->|_]; [exact (Hf _ H)|exact H].
Qed.

Lemma role_good_incl t1 t2 e : incl t1 t2 -> role_good t1 e -> role_good t2 e.
Proof.
  intros Hi (H1 & H2 & H3 & H4). repeat split; try assumption. exact (incl_tran H3 Hi).
Qed.

Lemma in_u64nz_dflt : in_u64nz dflt_threshold = true.
Proof. vm_compute. reflexivity. Qed.

Lemma role_good_mk tbl r rk : role_ok r = true -> in_u64nz (rr_thr rk) = true ->
  incl (rr_ids rk) tbl -> NoDup (rr_ids rk) -> role_good tbl (r, rk).
Proof. intros H1 H2 H3 H4. exact (conj H1 (conj H2 (conj H3 H4))). Qed.

Section P.
  Variable kid : N -> N.

  Lemma parse_ok_keys b : parse_ok kid b = true -> keys_ok kid b.
  Proof.
    unfold parse_ok, keys_ok. intro H. apply andb_true_iff in H as [H _]. apply andb_true_iff in H as [H _].
    apply Forall_forall. intros e He. rewrite forallb_forall in H. apply N.eqb_eq. exact (H e He).
  Qed.

  Lemma body_good_parse_ok b : body_good kid b -> parse_ok kid b = true.
  Proof.
    intros (Hk & Hv & Hr). unfold parse_ok. rewrite Hv.
    assert (H1 : forallb (fun e => fst e =? kid (snd e)) (rb_keys b) = true).
    { apply forallb_forall. intros e He. unfold keys_ok in Hk. rewrite Forall_forall in Hk.
      apply N.eqb_eq. exact (Hk e He). }
    assert (H2 : forallb (fun e => role_ok (fst e) && in_u64nz (rr_thr (snd e))) (rb_roles b) = true).
    { apply forallb_forall. intros e He. rewrite Forall_forall in Hr. destruct (Hr e He) as (A & B & _).
      rewrite A, B. reflexivity. }
    rewrite H1, H2. reflexivity.
  Qed.

  Lemma load_Some st f : load kid st = Some f -> st = Some f /\ parse_ok kid (rf_body f) = true.
  Proof.
    unfold load. destruct st as [f0|]; [|discriminate]. destruct (parse_ok kid (rf_body f0)) eqn:E; [|discriminate].
    intro H. injection H as <-. split; [reflexivity|exact E].
  Qed.

  (* ------------------------------------------------------------------------------------ *)
  (* the editing commands keep the body well-formed *)

  Lemma add_id_good tbl r i rk : In i tbl -> role_good tbl (r, rk) -> role_good tbl (r, add_id i rk).
  Proof.
    intros Hi (H1 & H2 & H3 & H4). unfold add_id. cbn [fst snd] in *. destruct (memN i (rr_ids rk)) eqn:E.
    - apply role_good_mk; assumption.
    - apply role_good_mk; cbn [rr_ids rr_thr]; try assumption.
      + intros x Hx. apply in_app_iff in Hx as [Hx|[<-|[]]]; [exact (H3 x Hx)|exact Hi].
      + apply NoDup_snoc; [exact H4|]. apply memN_false. exact E.
  Qed.

  Lemma add_roles_good tbl i roles : In i tbl -> forallb role_ok roles = true -> forall rs,
    Forall (role_good tbl) rs ->
    Forall (role_good tbl) (fold_left (fun rs r => upd_role r (add_id i) empty_role rs) roles rs).
  Proof.
    intros Hi. induction roles as [|r roles IH]; intros Hr rs H; cbn [fold_left]; [exact H|].
    cbn [forallb] in Hr. apply andb_true_iff in Hr as [Hr1 Hr2]. apply IH; [exact Hr2|].
    apply upd_role_Forall; [| |exact H].
    - apply add_id_good; [exact Hi|]. apply role_good_mk; cbn [empty_role rr_ids rr_thr].
      + exact Hr1.
      + exact in_u64nz_dflt.
      + intros x [].
      + constructor.
    - intros rk. apply add_id_good. exact Hi.
  Qed.

  Lemma add_one_good roles b k b' : forallb role_ok roles = true ->
    body_good kid b -> add_one kid roles b k = Some b' -> body_good kid b'.
  Proof.
    intros Hr (Hk & Hv & Hrs). unfold add_one.
    destruct (id_of_key k (rb_keys b)) as [i|] eqn:E.
    - intro H. injection H as <-. unfold body_good, keys_ok, set_keys_roles. cbn [rb_keys rb_version rb_roles].
      repeat split; try assumption. apply add_roles_good; try assumption.
      apply id_of_key_In in E. apply in_map_iff. exists (i, k). split; [reflexivity|exact E].
    - destruct (memN (kid k) (map fst (rb_keys b))) eqn:Em; [discriminate|].
      intro H. injection H as <-. unfold body_good, keys_ok, set_keys_roles. cbn [rb_keys rb_version rb_roles].
      repeat split; try assumption.
      + apply Forall_app. split; [exact Hk|]. constructor; [reflexivity|constructor].
      + apply add_roles_good; try assumption.
        * rewrite map_app, in_app_iff. right. left. reflexivity.
        * eapply Forall_impl; [|exact Hrs]. intro e. apply role_good_incl.
          rewrite map_app. apply incl_appl, incl_refl.
  Qed.

  Lemma add_all_good roles ks : forallb role_ok roles = true -> forall b b',
    body_good kid b -> add_all kid roles b ks = Some b' -> body_good kid b'.
  Proof.
    intro Hr. induction ks as [|[k|] ks IH]; intros b b' Hb; cbn [add_all].
    - intro H. injection H as <-. exact Hb.
    - destruct (add_one kid roles b k) as [b1|] eqn:E; [|discriminate].
      apply IH. exact (add_one_good _ _ _ _ Hr Hb E).
    - discriminate.
  Qed.

  Lemma del_id_good tbl r i rk : role_good tbl (r, rk) -> role_good tbl (r, del_id i rk).
  Proof.
    intros (H1 & H2 & H3 & H4). cbn [fst snd] in *. apply role_good_mk; cbn [del_id rr_ids rr_thr]; try assumption.
    - exact (incl_tran (remove_first_incl _ _) H3).
    - apply remove_first_NoDup. exact H4.
  Qed.

  Lemma edit_good c b b' : body_good kid b -> edit kid c b = Some b' -> body_good kid b'.
  Proof.
    intros Hb. pose proof Hb as (Hk & Hv & Hrs). destruct c; cbn [edit]; try discriminate.
    - (* add-key *)
      destruct (forallb role_ok roles) eqn:Er; [|discriminate]. apply add_all_good; assumption.
    - (* remove-key *)
      destruct role as [r|].
      + destruct (role_ok r) eqn:Er; [|discriminate]. intro H. injection H as <-.
        unfold body_good, keys_ok, set_roles. cbn [rb_keys rb_version rb_roles]. repeat split; try assumption.
        apply mod_role_Forall; [|exact Hrs]. intro rk. apply del_id_good.
      + intro H. injection H as <-.
        unfold body_good, keys_ok, set_keys_roles. cbn [rb_keys rb_version rb_roles]. repeat split; try assumption.
        * unfold keys_ok in Hk. rewrite Forall_forall in *. intros e He. apply filter_In in He as [He _].
          exact (Hk e He).
        * apply Forall_forall. intros e He. apply in_map_iff in He as ([r rk] & <- & Hin).
          rewrite Forall_forall in Hrs. destruct (Hrs _ Hin) as (H1 & H2 & H3 & H4).
          cbn [fst snd] in *. destruct (remove_first_NoDup keyid _ H4) as [Hn Hx].
          apply role_good_mk; cbn [del_id rr_ids rr_thr]; try assumption.
          intros x Hin'. assert (Hxi : x <> keyid) by (intro; subst; exact (Hx Hin')).
          apply remove_first_incl in Hin'. apply H3 in Hin'. apply in_map_iff in Hin' as (e & He1 & He2).
          apply in_map_iff. exists e. split; [exact He1|]. apply filter_In. split; [exact He2|].
          subst x. destruct (N.eqb_spec (fst e) keyid); [contradiction|reflexivity].
    - (* set-threshold *)
      destruct (role_ok role && in_u64nz n) eqn:E; [|discriminate]. apply andb_true_iff in E as [E1 E2].
      intro H. injection H as <-.
      unfold body_good, keys_ok, set_roles. cbn [rb_keys rb_version rb_roles]. repeat split; try assumption.
      apply upd_role_Forall; [| |exact Hrs].
      + apply role_good_mk; cbn [set_thr rr_ids rr_thr]; try assumption; [intros x []|constructor].
      + intros rk (H1 & H2 & H3 & H4). cbn [fst snd] in *.
        apply role_good_mk; cbn [set_thr rr_ids rr_thr]; assumption.
    - (* set-version *)
      destruct (in_u64nz n) eqn:E; [|discriminate]. intro H. injection H as <-.
      unfold body_good, keys_ok, set_version. cbn [rb_keys rb_version rb_roles]. repeat split; assumption.
    - (* bump-version *)
      destruct (rb_version b + 1 <=? u64_max) eqn:E; [|discriminate]. intro H. injection H as <-.
      unfold body_good, keys_ok, set_version. cbn [rb_keys rb_version rb_roles]. repeat split; try assumption.
      unfold in_u64nz in *. lia.
    - (* expire *)
      destruct time as [t|]; [|discriminate]. intro H. injection H as <-.
      unfold body_good, keys_ok, set_expires. cbn [rb_keys rb_version rb_roles]. repeat split; assumption.
  Qed.

  Lemma init_good v now : in_u64nz v = true -> body_good kid (init_body v now).
  Proof.
    intro Hv. unfold body_good, keys_ok, init_body. cbn [rb_keys rb_version rb_roles map].
    repeat split; [constructor|exact Hv|].
    assert (G : forall r, role_ok r = true -> role_good [] (r, empty_role)).
    { intros r Hr. apply role_good_mk; cbn [empty_role rr_ids rr_thr];
        [exact Hr|exact in_u64nz_dflt|intros x []|constructor]. }
    repeat constructor; apply G; reflexivity.
  Qed.

  (* ------------------------------------------------------------------------------------ *)
  (* sign *)
  Definition mk_sig (b : body) (p : N * N) : rsig :=
    {| sg_keyid := fst p; sg_key := snd p; sg_body := b |}.

  Lemma collect_In t ks : forall acc p, In p (collect t acc ks) -> In p acc \/ In p t.
  Proof.
    induction ks as [|k ks IH]; intros acc p; cbn [collect]; [left; assumption|].
    destruct (id_of_key k t) as [i|] eqn:E; [|apply IH].
    destruct (memN i (map fst acc)); [apply IH|].
    intro H. apply IH in H as [H|H]; [|right; exact H].
    apply in_app_iff in H as [H|[<-|[]]]; [left; exact H|right; exact (id_of_key_In _ _ _ E)].
  Qed.

  Lemma collect_NoDup t ks : forall acc, NoDup (map fst acc) -> NoDup (map fst (collect t acc ks)).
  Proof.
    induction ks as [|k ks IH]; intros acc H; cbn [collect]; [exact H|].
    destruct (id_of_key k t) as [i|]; [|exact (IH _ H)].
    destruct (memN i (map fst acc)) eqn:E; [exact (IH _ H)|].
    apply IH. rewrite map_app. cbn [map fst]. apply NoDup_snoc; [exact H|]. apply memN_false. exact E.
  Qed.

  Lemma add_old_Forall (P : rsig -> Prop) old : forall acc,
    Forall P acc -> Forall P old -> Forall P (add_old acc old).
  Proof.
    induction old as [|o old IH]; intros acc Ha Ho; cbn [add_old]; [exact Ha|].
    inversion Ho as [|? ? H1 H2]; subst.
    destruct (existsb (fun s => sg_keyid s =? sg_keyid o) acc); [exact (IH _ Ha H2)|].
    apply IH; [|exact H2]. apply Forall_app. split; [exact Ha|]. constructor; [exact H1|constructor].
  Qed.

  Lemma add_old_NoDup old : forall acc,
    NoDup (map sg_keyid acc) -> NoDup (map sg_keyid (add_old acc old)).
  Proof.
    induction old as [|o old IH]; intros acc Ha; cbn [add_old]; [exact Ha|].
    destruct (existsb (fun s => sg_keyid s =? sg_keyid o) acc) eqn:E; [exact (IH _ Ha)|].
    apply IH. rewrite map_app. cbn [map]. apply NoDup_snoc; [exact Ha|].
    intro Hin. apply in_map_iff in Hin as (s & Hs & Hin).
    assert (X : existsb (fun s => sg_keyid s =? sg_keyid o) acc = true).
    { apply existsb_exists. exists s. split; [exact Hin|]. rewrite Hs. apply N.eqb_refl. }
    congruence.
  Qed.

  Definition cross_none (cross : option state) : bool :=
    match cross with None => true | Some _ => false end.

  Definition signed_sigs (f lr : rfile) (lrk : rolekeys) (ks : list N) : list rsig :=
    add_old (map (mk_sig (rf_body f))
                 (filter (fun p => memN (fst p) (rr_ids lrk)) (collect (rb_keys (rf_body lr)) [] ks)))
            (rf_sigs f).

  Lemma sign_inv fx keys cross ignore st st' :
    sign kid fx keys cross ignore st = ROk st' ->
    exists f lr ks lrk rk,
      load kid st = Some f
      /\ match cross with None => Some f | Some c => load kid c end = Some lr
      /\ all_some keys = Some ks
      /\ find_role 0 (rb_roles (rf_body lr)) = Some lrk
      /\ find_role 0 (rb_roles (rf_body f)) = Some rk
      /\ st' = Some {| rf_body := rf_body f; rf_sigs := signed_sigs f lr lrk ks |}
      /\ (ignore = false ->
          ((if fx_own_root_sigs fx && cross_none cross
            then own_count (rr_ids rk) (signed_sigs f lr lrk ks)
            else N.of_nat (length (signed_sigs f lr lrk ks))) <? rr_thr rk) = false).
  Proof.
    unfold sign. destruct (load kid st) as [f|] eqn:E1; [|discriminate].
    destruct (match cross with None => Some f | Some c => load kid c end) as [lr|] eqn:E2; [|discriminate].
    destruct (all_some keys) as [ks|] eqn:E3; [|discriminate].
    destruct (collect (rb_keys (rf_body lr)) [] ks) as [|p found] eqn:E4; [discriminate|].
    destruct (find_role 0 (rb_roles (rf_body lr))) as [lrk|] eqn:E5; [|discriminate].
    destruct (negb ignore && unstable (rf_body f)) eqn:E6; [discriminate|].
    destruct (find_role 0 (rb_roles (rf_body f))) as [rk|] eqn:E7; [|discriminate].
    match goal with |- context [if negb ignore && ?c then _ else _] => destruct (negb ignore && c) eqn:E8 end;
      [discriminate|].
    intro H. injection H as <-. exists f, lr, ks, lrk, rk.
    unfold signed_sigs, mk_sig, cross_none. rewrite E4.
    repeat split; try reflexivity; try assumption.
    intro Hi. subst ignore. cbn [negb andb] in E8. exact E8.
  Qed.

  Lemma signed_sigs_good f lr lrk ks :
    keys_ok kid (rf_body lr) -> Forall (sig_good kid (rf_body f)) (rf_sigs f) ->
    Forall (sig_good kid (rf_body f)) (signed_sigs f lr lrk ks).
  Proof.
    intros Hk Hold. unfold signed_sigs. apply add_old_Forall; [|exact Hold].
    apply Forall_forall. intros g Hg. apply in_map_iff in Hg as (p & <- & Hp).
    apply filter_In in Hp as [Hp _]. apply collect_In in Hp as [[]|Hp].
    split; [reflexivity|]. cbn [mk_sig sg_keyid sg_key]. unfold keys_ok in Hk. rewrite Forall_forall in Hk.
    exact (Hk p Hp).
  Qed.

  Lemma signed_sigs_NoDup f lr lrk ks : NoDup (map sg_keyid (signed_sigs f lr lrk ks)).
  Proof.
    unfold signed_sigs. apply add_old_NoDup. rewrite map_map. cbn [mk_sig sg_keyid].
    apply NoDup_map_filter. apply collect_NoDup. constructor.
  Qed.

  (* ------------------------------------------------------------------------------------ *)
  (* the invariant *)
  Lemma step_good fx c st st' : good kid st -> step kid fx c st = ROk st' -> good kid st'.
  Proof.
    intros Hg. unfold step.
    assert (Hedit : match load kid st with
                    | None => RErr
                    | Some f => match edit kid c (rf_body f) with
                                | None => RErr
                                | Some b' => ROk (Some {| rf_body := b'; rf_sigs := [] |})
                                end
                    end = ROk st' -> good kid st').
    { destruct (load kid st) as [f|] eqn:E; [|discriminate]. apply load_Some in E as [-> _].
      destruct (edit kid c (rf_body f)) as [b'|] eqn:E2; [|discriminate].
      intro H. injection H as <-. cbn [good rf_body rf_sigs]. split; [|constructor].
      destruct Hg as [Hb _]. exact (edit_good _ _ _ Hb E2). }
    destruct c; try exact Hedit.
    - (* init *)
      destruct (in_u64nz match version with Some x => x | None => 1 end) eqn:E; [|discriminate].
      intro H. injection H as <-. cbn [good rf_body rf_sigs]. split; [|constructor]. apply init_good. exact E.
    - (* sign *)
      intro H. apply sign_inv in H as (f & lr & ks & lrk & rk & H1 & H2 & _ & _ & _ & -> & _).
      apply load_Some in H1 as [-> _]. cbn [good rf_body rf_sigs] in *. destruct Hg as [Hb Hs].
      split; [exact Hb|]. apply signed_sigs_good; [|exact Hs].
      destruct cross as [c|].
      + apply load_Some in H2 as [_ H2]. apply parse_ok_keys. exact H2.
      + injection H2 as <-. apply Hb.
    - discriminate.
  Qed.

  Lemma exec_good fx c st : good kid st -> good kid (exec kid fx c st).
  Proof.
    intro Hg. unfold exec. destruct (step kid fx c st) eqn:E; [exact (step_good _ _ _ _ Hg E)|exact Hg].
  Qed.

  Lemma run_all_good fx cs : forall st, good kid st -> good kid (run_all kid fx cs st).
  Proof.
    unfold run_all. induction cs as [|c cs IH]; intros st Hg; cbn [fold_left]; [exact Hg|].
    apply IH. apply exec_good. exact Hg.
  Qed.

  Theorem inv_from_nothing fx cs f : run_all kid fx cs None = Some f ->
    parse_ok kid (rf_body f) = true
    /\ (forall i k, In (i, k) (rb_keys (rf_body f)) -> i = kid k)
    /\ (forall g, In g (rf_sigs f) -> sg_body g = rf_body f).
  Proof.
    intro H. pose proof (run_all_good fx cs None I) as Hg. rewrite H in Hg. destruct Hg as [Hb Hs].
    split; [exact (body_good_parse_ok _ Hb)|]. split.
    - intros i k Hin. destruct Hb as (Hk & _). unfold keys_ok in Hk. rewrite Forall_forall in Hk.
      exact (Hk _ Hin).
    - intros g Hin. rewrite Forall_forall in Hs. apply (Hs g Hin).
  Qed.

  Theorem content_change_clears fx c st st' :
    step kid fx c st = ROk st' -> is_sign c = false -> exists f, st' = Some f /\ rf_sigs f = [].
  Proof.
    unfold step. intros H Hs.
    assert (Hedit : match load kid st with
                    | None => RErr
                    | Some f => match edit kid c (rf_body f) with
                                | None => RErr
                                | Some b' => ROk (Some {| rf_body := b'; rf_sigs := [] |})
                                end
                    end = ROk st' -> exists f, st' = Some f /\ rf_sigs f = []).
    { destruct (load kid st) as [f|]; [|discriminate]. destruct (edit kid c (rf_body f)) as [b'|]; [|discriminate].
      intro H'. injection H' as <-. eexists. split; reflexivity. }
    destruct c; try exact (Hedit H); try discriminate.
    destruct (in_u64nz match version with Some x => x | None => 1 end); [|discriminate].
    injection H as <-. eexists. split; reflexivity.
  Qed.

  Theorem sign_keeps_content fx keys cross ignore st st' :
    step kid fx (CSign keys cross ignore) st = ROk st' ->
    exists f f', st = Some f /\ st' = Some f' /\ rf_body f' = rf_body f.
  Proof.
    cbn [step]. intro H. apply sign_inv in H as (f & lr & ks & lrk & rk & H1 & _ & _ & _ & _ & -> & _).
    apply load_Some in H1 as [-> _]. eexists. eexists. repeat split; reflexivity.
  Qed.

  Theorem error_leaves_file fx c st : step kid fx c st = RErr -> exec kid fx c st = st.
  Proof. unfold exec. intros ->. reflexivity. Qed.

  Theorem failed_erasable fx cs : forall st,
    run_all kid fx cs st = run_all kid fx (succeeded kid fx cs st) st.
  Proof.
    unfold run_all. induction cs as [|c cs IH]; intro st; cbn [fold_left succeeded]; [reflexivity|].
    destruct (step kid fx c st) as [s|] eqn:E.
    - assert (X : exec kid fx c st = s) by (unfold exec; rewrite E; reflexivity).
      cbn [fold_left]. rewrite X. apply IH.
    - assert (X : exec kid fx c st = st) by (unfold exec; rewrite E; reflexivity).
      rewrite X. apply IH.
  Qed.

  (* ------------------------------------------------------------------------------------ *)
  (* self-verification after a plain sign (repaired variant) *)
  Hypothesis kid_inj : forall a b, kid a = kid b -> a = b.

  Lemma key_of_id_unique b i k : keys_ok kid b -> In i (map fst (rb_keys b)) -> i = kid k ->
    key_of_id i (rb_keys b) = Some k.
  Proof.
    unfold keys_ok. intros Hk Hin Hi. induction (rb_keys b) as [|[i' k'] t IH]; [destruct Hin|].
    cbn [key_of_id fst snd]. inversion Hk as [|? ? H1 H2]; subst. cbn [fst snd] in H1.
    destruct (N.eqb_spec i' (kid k)) as [Heq|Hne].
    - f_equal. apply kid_inj. congruence.
    - apply IH; [exact H2|]. cbn [map fst In] in Hin. destruct Hin as [Hin|Hin]; [contradiction|exact Hin].
  Qed.

  Lemma own_sigs_verify f : good kid (Some f) -> NoDup (map sg_keyid (rf_sigs f)) ->
    forall rk, find_role 0 (rb_roles (rf_body f)) = Some rk ->
    (own_count (rr_ids rk) (rf_sigs f) <? rr_thr rk) = false -> root_verify kid f = true.
  Proof.
    intros [Hb Hs] Hnd rk Hrk Hcnt. unfold root_verify. rewrite Hrk. rewrite verify_distinct_spec.
    unfold spec_accept. unfold own_count in Hcnt.
    set (tbl := map fst (rb_keys (rf_body f))) in *.
    set (own := filter (fun g => memN (sg_keyid g) (rr_ids rk)) (rf_sigs f)) in *.
    set (G := good_signers tbl (rr_ids rk) (map (sig_view kid (rf_body f)) (rf_sigs f))).
    assert (Hle : (length (map sg_keyid own) <= length G)%nat).
    { apply NoDup_incl_length.
      - unfold own. apply NoDup_map_filter. exact Hnd.
      - intros i Hi. apply in_map_iff in Hi as (g & <- & Hg). unfold own in Hg.
        apply filter_In in Hg as [Hg Hm]. unfold G, good_signers. apply filter_In. split.
        + apply dedup_In. apply memN_In. exact Hm.
        + unfold good_signer. rewrite Hm. cbn [andb]. apply existsb_exists.
          exists (sig_view kid (rf_body f) g). split; [apply in_map; exact Hg|].
          rewrite Forall_forall in Hs. destruct (Hs g Hg) as [Hfresh Hhonest].
          destruct Hb as (Hk & _ & Hrs). rewrite Forall_forall in Hrs.
          destruct (Hrs _ (find_role_In _ _ _ Hrk)) as (_ & _ & Hincl & _). cbn [snd] in Hincl.
          assert (Hin : In (sg_keyid g) tbl) by (apply Hincl, memN_In; exact Hm).
          unfold sig_valid, sig_view. cbn [s_claim s_by s_ok].
          rewrite (key_of_id_unique _ _ (sg_key g) Hk Hin Hhonest).
          rewrite Hfresh, body_eqb_refl, !N.eqb_refl. apply memN_In in Hin. rewrite Hin, <- Hhonest, N.eqb_refl.
          reflexivity. }
    rewrite map_length in Hle. fold G. lia.
  Qed.

  Theorem sign_selfverifies_good keys st f' : good kid st ->
    step kid rc_fixed (CSign keys None false) st = ROk (Some f') -> root_verify kid f' = true.
  Proof.
    intros Hg H. pose proof (step_good _ _ _ _ Hg H) as Hg'. cbn [step] in H.
    apply sign_inv in H as (f & lr & ks & lrk & rk & H1 & H2 & _ & _ & H5 & H6 & H7).
    injection H6 as ->. specialize (H7 eq_refl). cbn [rc_fixed fx_own_root_sigs cross_none andb] in H7.
    apply (own_sigs_verify _ Hg') with (rk := rk).
    - apply signed_sigs_NoDup.
    - exact H5.
    - exact H7.
  Qed.

  Theorem sign_selfverifies cs keys f' :
    step kid rc_fixed (CSign keys None false) (run_all kid rc_fixed cs None) = ROk (Some f') ->
    root_verify kid f' = true.
  Proof. apply sign_selfverifies_good. apply run_all_good. exact I. Qed.
End P.

(* ---------------------------------------------------------------------------------------- *)
(* F13: the pre-repair variant. Own root keys 1 and 2, threshold 2; the file is first cross-signed
   (ignoring the threshold) with key 3 of an older root, then signed with key 1 alone. *)
Lemma f13_original : last_status rc_original f13_history (CSign [Some 1] None false) = Some false.
Proof. vm_compute. reflexivity. Qed.
Lemma f13_fixed : last_status rc_fixed f13_history (CSign [Some 1] None false) = None
                  /\ last_status rc_fixed f13_history (CSign [Some 1; Some 2] None false) = Some true.
Proof. split; vm_compute; reflexivity. Qed.

Lemma sign_selfverifies_original_refuted :
  exists cs keys f', step idk rc_original (CSign keys None false) (run_all idk rc_original cs None) = ROk (Some f')
                     /\ root_verify idk f' = false.
Proof.
  exists f13_history, [Some 1].
  destruct (step idk rc_original (CSign [Some 1] None false) (run_all idk rc_original f13_history None))
    as [[f|]|] eqn:E; try (vm_compute in E; discriminate).
  exists f. split; [reflexivity|].
  pose proof f13_original as H. unfold last_status in H. rewrite E in H. injection H as H. exact H.
Qed.
