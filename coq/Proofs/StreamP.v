From ToughV Require Import Model.Base Model.Stream.
From Coq Require Import ZifyBool ZifyN ZifyNat.

Definition is_chunk (i : item) : Prop := match i with Chunk _ => True | _ => False end.

Lemma chunk_bytes_app a b : chunk_bytes (a ++ b) = chunk_bytes a ++ chunk_bytes b.
Proof. unfold chunk_bytes. apply flat_map_app. Qed.

Lemma chunk_bytes_cons it r :
  chunk_bytes (it :: r) = match it with Chunk b => b | _ => [] end ++ chunk_bytes r.
Proof. reflexivity. Qed.

(* once over the limit, everything is an error *)
Lemma msa_over max : forall t sz, max < sz -> sz <= u64max' -> chunk_bytes (max_size_adapter max sz t) = [].
Proof.
  induction t as [|x t IHt]; intros sz Hsz Hu; [reflexivity|]. cbn [max_size_adapter]. rewrite chunk_bytes_cons.
  assert (X : (max <? match x with Chunk b0 => sat_add sz (N.of_nat (length b0)) | _ => sz end) = true).
  { destruct x; unfold sat_add in *; lia. }
  rewrite X. cbn [app]. apply IHt; destruct x; unfold sat_add in *; lia.
Qed.

(* what the limiter lets through never exceeds the limit (limit below 2^64-1) *)
Lemma msa_total max : max < u64max' -> forall s size, size <= max ->
  size + N.of_nat (length (chunk_bytes (max_size_adapter max size s))) <= max.
Proof.
  intros Hm. induction s as [|it r IH]; intros size Hs; cbn [max_size_adapter]; [cbn; lia|].
  rewrite chunk_bytes_cons. destruct it as [b| | |].
  - destruct (max <? sat_add size (N.of_nat (length b))) eqn:E.
    + rewrite msa_over by (unfold sat_add in *; lia). cbn [app length]. lia.
    + rewrite app_length. specialize (IH (sat_add size (N.of_nat (length b)))).
      unfold sat_add in *. lia.
  - destruct (max <? size) eqn:E; cbn [app]; apply IH; lia.
  - destruct (max <? size) eqn:E; cbn [app]; apply IH; lia.
  - destruct (max <? size) eqn:E; cbn [app]; apply IH; lia.
Qed.

Theorem limiter_bound max s : max < u64max' ->
  N.of_nat (length (chunk_bytes (max_size_adapter max 0 s))) <= max.
Proof. intro H. pose proof (msa_total max H s 0). lia. Qed.

(* the consumer *)
Lemma consume_prefix s : (length (fst (consume s)) <= length (chunk_bytes s))%nat.
Proof.
  induction s as [|it r IH]; [cbn; lia|]. rewrite chunk_bytes_cons. cbn [consume].
  destruct it as [b| | |]; try (cbn; lia).
  destruct (consume r) as [d ok]. cbn [fst] in *. rewrite !app_length. lia.
Qed.

Lemma consume_ok s d : consume s = (d, true) -> d = chunk_bytes s /\ Forall is_chunk s.
Proof.
  revert d; induction s as [|it r IH]; intros d H; cbn [consume] in H.
  - inversion H. split; [reflexivity|constructor].
  - destruct it as [b| | |]; try discriminate.
    destruct (consume r) as [d' ok] eqn:E. inversion H; subst.
    destruct (IH d' eq_refl) as [-> F]. split; [reflexivity|constructor; [exact I|exact F]].
Qed.

Lemma consume_all_chunks s : Forall is_chunk s -> consume s = (chunk_bytes s, true).
Proof.
  induction 1 as [|it r Hi Hr IH]; [reflexivity|]. destruct it as [b| | |]; try contradiction.
  cbn [consume]. rewrite IH. reflexivity.
Qed.

Lemma consume_app_ok a b : Forall is_chunk a -> consume (a ++ b) = (chunk_bytes a ++ fst (consume b), snd (consume b)).
Proof.
  induction 1 as [|it r Hi Hr IH]; [cbn [app chunk_bytes flat_map]; destruct (consume b); reflexivity|].
  destruct it as [x| | |]; try contradiction. cbn [app consume]. rewrite IH. rewrite chunk_bytes_cons, app_assoc. reflexivity.
Qed.

(* the limiter is the identity on a stream of chunks that fits *)
Lemma msa_fits max : forall s size, Forall is_chunk s ->
  size + N.of_nat (length (chunk_bytes s)) <= max -> max < u64max' -> max_size_adapter max size s = s.
Proof.
  induction s as [|it r IH]; intros size F Hs Hm; [reflexivity|]. inversion F as [|? ? Hi Hr]; subst.
  destruct it as [b| | |]; try contradiction. cbn [max_size_adapter]. rewrite chunk_bytes_cons, app_length in Hs.
  assert (E : (max <? sat_add size (N.of_nat (length b))) = false) by (unfold sat_add in *; lia).
  rewrite E. f_equal. apply IH; auto. unfold sat_add in *. lia.
Qed.

(* if the limited stream has no error item, the limiter changed nothing *)
Lemma msa_no_error max : forall s size, Forall is_chunk (max_size_adapter max size s) ->
  max_size_adapter max size s = s.
Proof.
  induction s as [|it r IH]; intros size F; [reflexivity|]. cbn [max_size_adapter] in *.
  inversion F as [|? ? Hi Hr]; subst.
  destruct (max <? match it with Chunk b => sat_add size (N.of_nat (length b)) | _ => size end); [contradiction|].
  f_equal. apply IH, Hr.
Qed.

Section Digest.
  Variable H : bytes -> N.

  (* C06: if the stream a caller consumes ends without error, what it received hashes to the signed
     digest and is no longer than the signed length *)
  Theorem fetch_sha256_sound len dig s d : len < u64max' ->
    consume (fetch_sha256 H len dig s) = (d, true) ->
    H d = dig /\ N.of_nat (length d) <= len /\ d = chunk_bytes s /\ Forall is_chunk s.
  Proof.
    intros Hl Hc. unfold fetch_sha256, digest_adapter in Hc.
    apply consume_ok in Hc as [-> F]. apply Forall_app in F as [F1 F2].
    destruct (H (chunk_bytes (max_size_adapter len 0 s)) =? dig) eqn:E.
    - rewrite app_nil_r. apply N.eqb_eq in E. split; [exact E|]. split; [apply limiter_bound, Hl|].
      pose proof (msa_no_error _ _ _ F1) as Eq. rewrite Eq in F1. rewrite Eq. split; [reflexivity|exact F1].
    - inversion F2 as [|? ? X _]. contradiction.
  Qed.

  (* never more than the signed length reaches the caller, whatever the stream does and wherever
     the caller stops (every finite prefix of an endless stream included) *)
  Theorem fetch_sha256_never_more len dig s : len < u64max' ->
    N.of_nat (length (fst (consume (fetch_sha256 H len dig s)))) <= len.
  Proof.
    intro Hl. pose proof (consume_prefix (fetch_sha256 H len dig s)) as P.
    unfold fetch_sha256, digest_adapter in *. rewrite chunk_bytes_app in P.
    assert (E : chunk_bytes (if H (chunk_bytes (max_size_adapter len 0 s)) =? dig then [] else [ErrHash]) = []).
    { destruct (_ =? _); reflexivity. }
    rewrite E, app_nil_r in P. pose proof (limiter_bound len s Hl). lia.
  Qed.

  (* completeness: the signed content, in any chunking, is delivered unchanged *)
  Theorem fetch_sha256_complete len dig s : len < u64max' ->
    Forall is_chunk s -> N.of_nat (length (chunk_bytes s)) <= len -> H (chunk_bytes s) = dig ->
    consume (fetch_sha256 H len dig s) = (chunk_bytes s, true).
  Proof.
    intros Hl F Hn Hd. unfold fetch_sha256, digest_adapter.
    rewrite (msa_fits len s 0 F) by lia. rewrite Hd, N.eqb_refl, app_nil_r. apply consume_all_chunks, F.
  Qed.

  (* anything else ends in an error: a transport error, too many bytes, or other content *)
  Theorem fetch_sha256_rejects len dig s : len < u64max' ->
    (~ Forall is_chunk s \/ len < N.of_nat (length (chunk_bytes s)) \/ H (chunk_bytes s) <> dig) ->
    snd (consume (fetch_sha256 H len dig s)) = false.
  Proof.
    intros Hl Hbad. destruct (consume (fetch_sha256 H len dig s)) as [d ok] eqn:E. cbn [snd].
    destruct ok; [|reflexivity]. exfalso.
    apply fetch_sha256_sound in E as (Hh & Hn & -> & F); [|exact Hl].
    destruct Hbad as [B|[B|B]]; [apply B, F|lia|apply B, Hh].
  Qed.
End Digest.

(* the same for metadata fetched without a digest: never more than the limit *)
Theorem fetch_max_size_never_more len s : len < u64max' ->
  N.of_nat (length (fst (consume (fetch_max_size len s)))) <= len.
Proof.
  intro Hl. pose proof (consume_prefix (fetch_max_size len s)). unfold fetch_max_size in *.
  pose proof (limiter_bound len s Hl). lia.
Qed.

Example stream_example :
  consume (fetch_sha256 (fun b => N.of_nat (length b)) 5 4 [Chunk [1; 2]; Chunk []; Chunk [3; 4]]) = ([1; 2; 3; 4], true)
  /\ consume (fetch_sha256 (fun b => N.of_nat (length b)) 3 4 [Chunk [1; 2]; Chunk [3; 4]; Chunk [5]]) = ([1; 2], false).
Proof. split; vm_compute; reflexivity. Qed.
