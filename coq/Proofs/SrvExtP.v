(* Server extensionality: the outcome of every loader of the update cycle - result and final world -
   depends on the server only through the answers to the requests the loader makes. Two servers that
   answer every logged request alike (for every size limit and expected digest) are indistinguishable.
   Stated for every variant of the model ([fx] arbitrary). *)
From ToughV Require Import Model.Base Model.Pct Model.Sig Model.Glob Model.Deleg Model.Client.
From ToughV Require Import Proofs.BaseP Proofs.SigP Proofs.ClientP.
From Coq Require Import ZifyBool ZifyN ZifyNat.

(* [srv'] answers a request for [n] exactly as [srv] does *)
Definition same_answer (srv srv' : server) (n : bytes) : Prop :=
  forall lim h, fetch srv' n lim h = fetch srv n lim h.

Lemma same_answer_refl srv n : same_answer srv srv n.
Proof. intros lim h. reflexivity. Qed.

(* ---------------------------------------------------------------------------------------- *)
(* log lemmas that hold for every variant of the model *)
Lemma rm_ts_snap_log_fx fx w r w' : rm_ts_snap fx w = (r, w') -> w_log w' = w_log w.
Proof.
  unfold rm_ts_snap. intro H.
  destruct (ds_op fx w (upd_ts None) (upd_ts None)) as [[u|c a] w1] eqn:E1; apply ds_op_log in E1.
  - apply ds_op_log in H. congruence.
  - destruct (c =? E_Killed); [inv H; exact E1|].
    destruct (ds_op fx w1 (upd_snap None) (upd_snap None)) as [[u2|c2 a2] w2] eqn:E2; apply ds_op_log in E2.
    + inv H. congruence.
    + destruct (c2 =? E_Killed); inv H; congruence.
Qed.

Lemma finish_root_log_fx fx cfg now ref r w res w' : finish_root fx cfg now ref r w = (res, w') -> w_log w' = w_log w.
Proof.
  unfold finish_root. intro H.
  destruct (check_expired fx cfg now (r_expires r) 0 w) as [[u|c a] w2] eqn:E1;
    apply check_expired_frame in E1 as (_ & E1 & _).
  2:{ inv H. exact E1. }
  assert (Tail : forall w3, w_log w3 = w_log w ->
            (if fx_prev_root fx
             then match ds_op fx w3 (upd_root (Some (SDoc r))) (upd_root (Some SCorrupt)) with
                  | (Err c a, w4) => (Err c a, w4)
                  | (Ok _, w4) => (Ok r, w4)
                  end
             else (Ok r, w3)) = (res, w') -> w_log w' = w_log w).
  { intros w3 L3 H3. destruct (fx_prev_root fx); [|inv H3; exact L3].
    destruct (ds_op fx w3 (upd_root (Some (SDoc r))) (upd_root (Some SCorrupt))) as [[u4|c a] w4] eqn:E4;
      apply ds_op_log in E4; inv H3; congruence. }
  destruct (rotated ref r).
  - destruct (rm_ts_snap fx w2) as [[u3|c a] w3] eqn:E3; apply rm_ts_snap_log_fx in E3.
    + eapply Tail; [|exact H]. congruence.
    + inv H. congruence.
  - eapply Tail; [|exact H]. exact E1.
Qed.

(* ---------------------------------------------------------------------------------------- *)
Section Ext.
  Variables srv srv' : server.

  (* [out] is what a loader returns on [srv] from world [w], [out'] what it returns on [srv']: the log
     only grows, and if [srv'] answers the added requests as [srv] does the two outcomes are equal *)
  Definition ext_res {A} (w : world) (out out' : res A * world) : Prop :=
    exists l, w_log (snd out) = w_log w ++ l /\ (Forall (same_answer srv srv') l -> out' = out).

  Lemma ext_res_refl {A} w (out : res A * world) : w_log (snd out) = w_log w -> ext_res w out out.
  Proof. intro L. exists []. rewrite app_nil_r. split; [exact L|reflexivity]. Qed.

  Lemma ext_res_log {A} w w1 (out out' : res A * world) :
    w_log w1 = w_log w -> ext_res w1 out out' -> ext_res w out out'.
  Proof. intros L (l & E & H). exists l. rewrite <- L. auto. Qed.

  (* one request *)
  Lemma ext_res_fetch {A} w name lim h (K K' : fres -> res A * world) :
    (forall y, ext_res (logged w name) (K y) (K' y)) ->
    ext_res w (K (fetch srv name lim h)) (K' (fetch srv' name lim h)).
  Proof.
    intro H. destruct (H (fetch srv name lim h)) as (l & L & E). exists (name :: l). split.
    - rewrite L, logged_log, <- app_assoc. reflexivity.
    - intro Hs. inversion Hs as [|x y Hn Hl]; subst. rewrite (Hn lim h). apply E, Hl.
  Qed.

  (* one loader after another *)
  Lemma ext_res_bind {A B} w (m m' : res A * world) (K K' : res A * world -> res B * world) :
    ext_res w m m' ->
    (forall x w1, m = (x, w1) -> ext_res w1 (K (x, w1)) (K' (x, w1))) ->
    ext_res w (K m) (K' m').
  Proof.
    intros (l1 & L1 & E1) H. destruct m as [x w1]. destruct (H x w1 eq_refl) as (l2 & L2 & E2).
    cbn [snd] in L1. exists (l1 ++ l2). split.
    - rewrite L2, L1, app_assoc. reflexivity.
    - intro Hs. apply Forall_app in Hs as [H1 H2]. rewrite (E1 H1). apply E2, H2.
  Qed.

  Ltac ext_fetch :=
    match goal with
    | |- ext_res ?w ?a ?b =>
        match a with
        | context [fetch srv ?n ?l ?h] =>
            let a' := eval pattern (fetch srv n l h) in a in
            let b' := eval pattern (fetch srv' n l h) in b in
            match a' with
            | ?K _ => match b' with ?K' _ => apply (ext_res_fetch w n l h K K') end
            end
        end
    end.

  Ltac ext_bind m m' :=
    match goal with
    | |- ext_res ?w ?a ?b =>
        let a' := eval pattern m in a in
        let b' := eval pattern m' in b in
        match a' with
        | ?K _ => match b' with ?K' _ => apply (ext_res_bind w m m' K K') end
        end
    end.

  (* a branch that makes no further request *)
  Ltac fin := apply ext_res_refl; cbn [snd]; try reflexivity; congruence.

  (* ---- the root walk ---- *)
  Lemma root_walk_ext_res fx cfg orig : forall fuel cur w,
    ext_res w (root_walk fx fuel cfg srv orig cur w) (root_walk fx fuel cfg srv' orig cur w).
  Proof.
    induction fuel as [|f IH]; intros cur w; cbn [root_walk]; [fin|].
    destruct (r_version cur <? update_limit fx orig (c_max_root_updates cfg)); [|fin].
    ext_fetch. intros [file|sub]; cbv beta match.
    - destruct (f_body file) as [|new| | |]; try fin.
      destruct (negb (root_verify cur 0 (r_sigs new))); [fin|].
      destruct (negb (root_verify new 0 (r_sigs new))); [fin|].
      destruct (r_version new <? r_version cur); [fin|].
      destruct (r_version new =? r_version cur); [fin|].
      apply IH.
    - destruct ((sub =? 0) || (sub =? 1) || (sub =? 5)); fin.
  Qed.

  Lemma load_root_ext_res fx cfg shipped now w :
    ext_res w (load_root fx cfg shipped srv now w) (load_root fx cfg shipped srv' now w).
  Proof.
    unfold load_root. destruct shipped as [|r0| | |]; try fin.
    destruct (negb (root_verify r0 0 (r_sigs r0))); [fin|].
    ext_bind (root_walk fx (c_fuel cfg) cfg srv (r_version r0) r0 w)
             (root_walk fx (c_fuel cfg) cfg srv' (r_version r0) r0 w); [apply root_walk_ext_res|].
    intros x w1 _. cbv beta match. destruct x as [r|c a]; [|fin].
    destruct (finish_root fx cfg now (reference_root fx r0 (w_store w)) r w1) as [res w2] eqn:E.
    apply finish_root_log_fx in E. fin.
  Qed.

  (* ---- timestamp, snapshot ---- *)
  Lemma load_timestamp_ext_res fx cfg r now w :
    ext_res w (load_timestamp fx cfg r srv now w) (load_timestamp fx cfg r srv' now w).
  Proof.
    unfold load_timestamp. cbv zeta. ext_fetch. intros [file|sub]; cbv beta match; [|fin].
    destruct (f_body file) as [| |ts| |]; try fin.
    destruct (negb (root_verify r 3 (ts_sigs ts))); [fin|].
    match goal with |- ext_res _ (if ?c then _ else _) _ => destruct c end; [fin|].
    match goal with |- context [check_expired ?a ?b ?c ?d ?e ?f] =>
      destruct (check_expired a b c d e f) as [[u|ce ae] w2] eqn:E1 end;
      apply check_expired_frame in E1 as (_ & E1 & _); [|fin].
    match goal with |- context [ds_op ?a ?b ?c ?d] => destruct (ds_op a b c d) as [[u4|c4 a4] w4] eqn:E4 end;
      apply ds_op_log in E4; fin.
  Qed.

  Lemma load_snapshot_ext_res fx cfg r ts now w :
    ext_res w (load_snapshot fx cfg r ts srv now w) (load_snapshot fx cfg r ts srv' now w).
  Proof.
    unfold load_snapshot. destruct (lookup name_snapshot (ts_meta ts)) as [m|]; [|fin].
    cbv zeta. ext_fetch. intros [file|sub]; cbv beta match; [|fin].
    destruct (f_body file) as [| | |sn|]; try fin.
    destruct (negb (sn_version sn =? m_version m)); [fin|].
    destruct (negb (root_verify r 1 (sn_sigs sn))); [fin|].
    match goal with |- ext_res _ (match ?chk with Ok _ => _ | Err _ _ => _ end) _ => destruct chk as [u0|cc ac] end; [|fin].
    match goal with |- context [check_expired ?a ?b ?c ?d ?e ?f] =>
      destruct (check_expired a b c d e f) as [[u|ce ae] w2] eqn:E1 end;
      apply check_expired_frame in E1 as (_ & E1 & _); [|fin].
    match goal with |- context [ds_op ?a ?b ?c ?d] => destruct (ds_op a b c d) as [[u4|c4 a4] w4] eqn:E4 end;
      apply ds_op_log in E4; fin.
  Qed.

  (* ---- delegated roles ---- *)
  Section Delegs.
    Variables (fx : fixes) (cfg : config) (snap : snapshot) (cs : bool) (lim : N).

    Lemma fetch_level_ext_res dkeys all anc : forall todo acc w,
      ext_res w (fetch_level fx cfg srv snap cs lim dkeys all todo anc acc w)
                (fetch_level fx cfg srv' snap cs lim dkeys all todo anc acc w).
    Proof.
      induction todo as [|[h o] rest IH]; intros acc w; cbn [fetch_level]; [fin|].
      destruct (fx_ancestors fx && mem_bytes (dh_name h) anc); [fin|].
      destruct (lookup (json_of (dh_name h)) (sn_meta snap)) as [m|]; [|fin].
      ext_fetch. intros [file|sub]; cbv beta match; [|fin].
      destruct (f_body file) as [| | | |t]; try fin.
      destruct (negb (deleg_verify fx dkeys all (dh_name h) (tg_sigs t))); [fin|].
      destruct (negb (tg_version t =? m_version m)); [fin|].
      match goal with |- context [ds_op ?a ?b ?c ?d] => destruct (ds_op a b c d) as [[u2|c2 a2] w2] eqn:E2 end;
        apply ds_op_log in E2; [|fin].
      eapply ext_res_log; [exact E2|]. apply IH.
    Qed.

    Definition rec_ext (rec rec' : list N -> list (dhdr * option targets) -> list bytes -> world
                                   -> res (list (dhdr * option targets)) * world) : Prop :=
      forall dk rs anc w, ext_res w (rec dk rs anc w) (rec' dk rs anc w).

    Lemma second_loop_ext_res rec rec' : rec_ext rec rec' -> forall todo anc remaining w,
      ext_res w (second_loop rec anc todo remaining w) (second_loop rec' anc todo remaining w).
    Proof.
      intro Hrec. induction todo as [|[h o] rest IH]; intros anc remaining w; cbn [second_loop]; [fin|].
      destruct (lookup (dh_name h) remaining) as [t|]; [|fin].
      destruct (tg_has_deleg t).
      - ext_bind (rec (tg_dkeys t) (tg_roles t) (anc ++ [dh_name h]) w)
                 (rec' (tg_dkeys t) (tg_roles t) (anc ++ [dh_name h]) w); [apply Hrec|].
        intros x w1 _. cbv beta match. destruct x as [rs|c a]; cbv beta match; [|fin].
        ext_bind (second_loop rec anc rest (assoc_remove (dh_name h) remaining) w1)
                 (second_loop rec' anc rest (assoc_remove (dh_name h) remaining) w1); [apply IH|].
        intros x2 w2 _. cbv beta match. destruct x2; fin.
      - ext_bind (second_loop rec anc rest (assoc_remove (dh_name h) remaining) w)
                 (second_loop rec' anc rest (assoc_remove (dh_name h) remaining) w); [apply IH|].
        intros x2 w2 _. cbv beta match. destruct x2; fin.
    Qed.

    Lemma load_delegs_ext_res : forall fuel,
      rec_ext (load_delegs fx cfg srv snap cs lim fuel) (load_delegs fx cfg srv' snap cs lim fuel).
    Proof.
      induction fuel as [|f IH]; intros dk rs anc w; cbn [load_delegs]; [fin|].
      ext_bind (fetch_level fx cfg srv snap cs lim dk rs rs anc [] w)
               (fetch_level fx cfg srv' snap cs lim dk rs rs anc [] w); [apply fetch_level_ext_res|].
      intros x w1 _. cbv beta match. destruct x as [fetched|c a]; [|fin].
      apply second_loop_ext_res, IH.
    Qed.
  End Delegs.

  (* ---- targets ---- *)
  Lemma load_targets_ext_res fx cfg r sn now w :
    ext_res w (load_targets fx cfg r sn srv now w) (load_targets fx cfg r sn srv' now w).
  Proof.
    unfold load_targets. destruct (lookup name_targets (sn_meta sn)) as [m|]; [|fin].
    cbv zeta. ext_fetch. intros [file|sub]; cbv beta match; [|fin].
    destruct (f_body file) as [| | | |t]; try fin.
    destruct (negb (tg_version t =? m_version m)); [fin|].
    destruct (negb (root_verify r 2 (tg_sigs t))); [fin|].
    match goal with |- ext_res _ (if ?c then _ else _) _ => destruct c end; [fin|].
    match goal with |- context [check_expired ?a ?b ?c ?d ?e ?f] =>
      destruct (check_expired a b c d e f) as [[u|ce ae] w2] eqn:E1 end;
      apply check_expired_frame in E1 as (_ & E1 & _); [|fin].
    match goal with |- context [ds_op ?a ?b ?c ?d] => destruct (ds_op a b c d) as [[u3|c3 a3] w3] eqn:E3 end;
      apply ds_op_log in E3; [|fin].
    destruct (tg_has_deleg t).
    - eapply (ext_res_log _ w3); [congruence|].
      match goal with |- ext_res _ ?a _ =>
        match a with context [load_delegs ?a1 ?a2 srv ?a4 ?a5 ?a6 ?a7 ?a8 ?a9 ?a10 ?a11] =>
          ext_bind (load_delegs a1 a2 srv a4 a5 a6 a7 a8 a9 a10 a11)
                   (load_delegs a1 a2 srv' a4 a5 a6 a7 a8 a9 a10 a11) end end;
        [apply load_delegs_ext_res|].
      intros x w4 _. cbv beta match. destruct x as [rs|c4 a4]; cbv beta match; [|fin].
      destruct (validate (tg_set_roles t rs)); fin.
    - destruct (validate t); fin.
  Qed.

  (* ---- the cycle ---- *)
  Lemma cycle_ext_res fx cfg shipped now w :
    ext_res w (cycle fx cfg shipped srv now w) (cycle fx cfg shipped srv' now w).
  Proof.
    unfold cycle.
    ext_bind (load_root fx cfg shipped srv now w) (load_root fx cfg shipped srv' now w); [apply load_root_ext_res|].
    intros x1 w1 _. cbv beta match. destruct x1 as [r|c a]; [|fin].
    ext_bind (load_timestamp fx cfg r srv now w1) (load_timestamp fx cfg r srv' now w1); [apply load_timestamp_ext_res|].
    intros x2 w2 _. cbv beta match. destruct x2 as [ts|c a]; [|fin].
    ext_bind (load_snapshot fx cfg r ts srv now w2) (load_snapshot fx cfg r ts srv' now w2); [apply load_snapshot_ext_res|].
    intros x3 w3 _. cbv beta match. destruct x3 as [sn|c a]; [|fin].
    ext_bind (load_targets fx cfg r sn srv now w3) (load_targets fx cfg r sn srv' now w3); [apply load_targets_ext_res|].
    intros x4 w4 _. cbv beta match. destruct x4 as [t|c a]; fin.
  Qed.

  (* ---------------------------------------------------------------------------------------- *)
  (* the statements in their plain form: if the loader returns (r, w') on [srv] and [srv'] answers every
     request of the final log alike, it returns (r, w') on [srv'] *)
  Definition answers_log (w' : world) : Prop := forall n, In n (w_log w') -> same_answer srv srv' n.

  Lemma ext_res_plain {A} w (out out' : res A * world) r w' :
    ext_res w out out' -> out = (r, w') -> answers_log w' -> out' = (r, w').
  Proof.
    intros (l & L & E) -> Ha. apply E. apply Forall_forall. intros n Hn. apply Ha.
    cbn [snd] in L. rewrite L. apply in_or_app. right. exact Hn.
  Qed.

  Theorem root_walk_ext fx fuel cfg orig cur w r w' :
    root_walk fx fuel cfg srv orig cur w = (r, w') -> answers_log w' ->
    root_walk fx fuel cfg srv' orig cur w = (r, w').
  Proof. apply ext_res_plain with (w := w), root_walk_ext_res. Qed.

  Theorem load_root_ext fx cfg shipped now w r w' :
    load_root fx cfg shipped srv now w = (r, w') -> answers_log w' ->
    load_root fx cfg shipped srv' now w = (r, w').
  Proof. apply ext_res_plain with (w := w), load_root_ext_res. Qed.

  Theorem load_timestamp_ext fx cfg r now w res w' :
    load_timestamp fx cfg r srv now w = (res, w') -> answers_log w' ->
    load_timestamp fx cfg r srv' now w = (res, w').
  Proof. apply ext_res_plain with (w := w), load_timestamp_ext_res. Qed.

  Theorem load_snapshot_ext fx cfg r ts now w res w' :
    load_snapshot fx cfg r ts srv now w = (res, w') -> answers_log w' ->
    load_snapshot fx cfg r ts srv' now w = (res, w').
  Proof. apply ext_res_plain with (w := w), load_snapshot_ext_res. Qed.

  Theorem fetch_level_ext fx cfg snap cs lim dkeys all todo anc acc w res w' :
    fetch_level fx cfg srv snap cs lim dkeys all todo anc acc w = (res, w') -> answers_log w' ->
    fetch_level fx cfg srv' snap cs lim dkeys all todo anc acc w = (res, w').
  Proof. apply ext_res_plain with (w := w), fetch_level_ext_res. Qed.

  Theorem second_loop_ext fx cfg snap cs lim fuel anc todo remaining w res w' :
    second_loop (load_delegs fx cfg srv snap cs lim fuel) anc todo remaining w = (res, w') -> answers_log w' ->
    second_loop (load_delegs fx cfg srv' snap cs lim fuel) anc todo remaining w = (res, w').
  Proof. apply ext_res_plain with (w := w), second_loop_ext_res, load_delegs_ext_res. Qed.

  Theorem load_delegs_ext fx cfg snap cs lim fuel dk rs anc w res w' :
    load_delegs fx cfg srv snap cs lim fuel dk rs anc w = (res, w') -> answers_log w' ->
    load_delegs fx cfg srv' snap cs lim fuel dk rs anc w = (res, w').
  Proof. apply ext_res_plain with (w := w), load_delegs_ext_res. Qed.

  Theorem load_targets_ext fx cfg r sn now w res w' :
    load_targets fx cfg r sn srv now w = (res, w') -> answers_log w' ->
    load_targets fx cfg r sn srv' now w = (res, w').
  Proof. apply ext_res_plain with (w := w), load_targets_ext_res. Qed.

  Theorem cycle_ext fx cfg shipped now w res w' :
    cycle fx cfg shipped srv now w = (res, w') -> answers_log w' ->
    cycle fx cfg shipped srv' now w = (res, w').
  Proof. apply ext_res_plain with (w := w), cycle_ext_res. Qed.
End Ext.

(* a whole cycle: two servers that answer every request of the cycle alike give the same result and
   leave the same datastore *)
Theorem run_cycle_ext fx c srv' s res w' :
  run_cycle fx c s = (res, w') ->
  (forall n, In n (w_log w') -> same_answer (cy_srv c) srv' n) ->
  run_cycle fx {| cy_cfg := cy_cfg c; cy_shipped := cy_shipped c; cy_srv := srv'; cy_now := cy_now c;
                  cy_fault := cy_fault c |} s = (res, w').
Proof. unfold run_cycle. cbn [cy_cfg cy_shipped cy_srv cy_now cy_fault]. apply cycle_ext. Qed.
