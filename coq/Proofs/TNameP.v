From ToughV Require Import Model.Base Model.Stream Model.TName Proofs.BaseP Proofs.StreamP.
From Coq Require Import ZifyBool ZifyN ZifyNat.

Definition no_slash (c : bytes) : Prop := ~ In 47 c.
(* a normal path component: not empty, not ".", not "..", no separator *)
Definition normal_comp (c : bytes) : Prop := is_normal c = true /\ no_slash c.

Lemma split_slash_no_slash s : forall cur, no_slash cur -> Forall no_slash (split_slash cur s).
Proof.
  induction s as [|c r IH]; intros cur Hc; cbn [split_slash].
  - constructor; [|constructor]. intro H. apply in_rev in H. exact (Hc H).
  - destruct (c =? 47) eqn:E.
    + constructor; [intro H; apply in_rev in H; exact (Hc H)|]. apply IH. intros [].
    + apply IH. intros [H|H]; [apply N.eqb_neq in E; congruence|exact (Hc H)].
Qed.

Lemma normalize_normal comps : forall stack,
  Forall normal_comp stack -> Forall no_slash comps -> Forall normal_comp (normalize stack comps).
Proof.
  induction comps as [|c r IH]; intros stack Hs Hc; cbn [normalize]; [apply Forall_rev, Hs|].
  inversion Hc as [|? ? Hc1 Hc2]; subst.
  destruct (is_empty c || is_dot c) eqn:E1; [apply IH; assumption|].
  destruct (is_dotdot c) eqn:E2.
  - apply IH; [|assumption]. destruct stack; [constructor|]. inversion Hs; assumption.
  - apply IH; [|assumption]. constructor; [|exact Hs]. split; [|exact Hc1].
    unfold is_normal. apply orb_false_iff in E1 as [-> ->]. rewrite E2. reflexivity.
Qed.

(* C08: a name that is accepted resolves to a non-empty sequence of normal components, optionally
   rooted; it is never "" or "/" *)
Theorem clean_name_normal name r : clean_name name = inr r ->
  exists absolute stack,
    r = (if absolute : bool then [47] else []) ++ join_slash stack
    /\ stack <> [] /\ Forall normal_comp stack.
Proof.
  unfold clean_name. intro H.
  destruct (is_dotdot name); [discriminate|]. destruct (is_empty name); [discriminate|].
  set (absolute := match name with c :: _ => c =? 47 | [] => false end) in *.
  set (stack := normalize [] (split_slash [] name)) in *.
  destruct (is_empty ((if absolute then [47] else []) ++ join_slash stack)) eqn:E1; [discriminate|].
  destruct (bytes_eqb ((if absolute then [47] else []) ++ join_slash stack) [47]) eqn:E2; [discriminate|].
  inversion H; subst r. exists absolute, stack. split; [reflexivity|]. split.
  - intro Hn. rewrite Hn in E1, E2. destruct absolute; cbn in E1, E2; discriminate.
  - apply normalize_normal; [constructor|]. apply split_slash_no_slash. intros [].
Qed.

(* ---------------------------------------------------------------------------------------- *)
(* confinement *)
Lemma list_prefix_app a : forall b, list_prefix a b = true -> exists c, b = a ++ c.
Proof.
  induction a as [|x a IH]; intros b H; [exists b; reflexivity|].
  destruct b as [|y b]; [discriminate|]. cbn [list_prefix] in H. apply andb_true_iff in H as [E H].
  apply bytes_eqb_eq in E. subst y. destruct (IH b H) as [c ->]. exists c. reflexivity.
Qed.

Lemma rev_cons_split {A} (l : list A) x r : rev l = x :: r -> l = rev r ++ [x].
Proof. intro H. rewrite <- (rev_involutive l), H. reflexivity. Qed.

(* whatever the file name: if the path check passes, the destination is strictly inside outdir and
   every component below outdir is one of the file name's own components *)
Theorem save_path_confined outdir fname dest : save_path outdir fname = inr dest ->
  exists cs, dest = outdir ++ cs /\ cs <> []
             /\ (forall c, In c cs -> In c (std_components fname)).
Proof.
  unfold save_path. intro H.
  set (absolute := match fname with c :: _ => c =? 47 | [] => false end) in *.
  set (full := if absolute then std_components fname else outdir ++ std_components fname) in *.
  destruct (rev full) as [|lastc rparent] eqn:Er; [discriminate|].
  destruct (list_prefix outdir (rev rparent)) eqn:Ep; [|discriminate].
  inversion H; subst dest. apply rev_cons_split in Er.
  destruct (list_prefix_app _ _ Ep) as [mid Hm].
  exists (mid ++ [lastc]). split; [rewrite Er, Hm, app_assoc; reflexivity|]. split; [destruct mid; discriminate|].
  intros c Hc.
  assert (Hin : In c full) by (rewrite Er, Hm; apply in_or_app; apply in_app_or in Hc as [Hc|Hc];
                               [left; apply in_or_app; right; exact Hc|right; exact Hc]).
  unfold full in Hin, Er. destruct absolute; [exact Hin|].
  (* relative: full = outdir ++ comps and also = outdir ++ mid ++ [last] *)
  rewrite Hm, <- app_assoc in Er. apply app_inv_head in Er. rewrite Er. exact Hc.
Qed.

(* ---------------------------------------------------------------------------------------- *)
(* atomicity over the abstract file system *)
Lemma save_steps_eq dest s : save_steps dest s = MkdirAll (removelast dest) :: CreateTmp (removelast dest) :: writes dest s.
Proof. reflexivity. Qed.

Definition files_unchanged (f g : fsys) : Prop := fs_files g = fs_files f.

Lemma writes_prefix dest s : forall k f t, fs_tmp f = Some t ->
  let g := fold_left fs_apply (firstn k (writes dest s)) f in
  files_unchanged f g
  \/ (snd (consume s) = true /\ (length (writes dest s) <= k)%nat
      /\ fs_files g = fs_put dest (t ++ chunk_bytes s) (fs_files f)).
Proof.
  induction s as [|it r IH]; intros k f t Ht; cbn [writes].
  - destruct k as [|k]; cbn [firstn fold_left]; [left; reflexivity|].
    right. rewrite firstn_nil. cbn [fold_left fs_apply]. rewrite Ht. cbn [fs_files].
    repeat split; [cbn; lia|]. rewrite app_nil_r. reflexivity.
  - destruct it as [b| | |].
    + destruct k as [|k]; cbn [firstn fold_left]; [left; reflexivity|].
      cbn [fs_apply]. rewrite Ht.
      specialize (IH k {| fs_files := fs_files f; fs_tmp := Some (t ++ b) |} (t ++ b) eq_refl).
      cbn [fs_files] in IH. destruct IH as [IH|(Hok & Hlen & Hf)]; [left; exact IH|right].
      cbn [consume]. destruct (consume r) as [d ok]. cbn [snd] in *.
      repeat split; [exact Hok|cbn [length]; lia|]. rewrite Hf, chunk_bytes_cons, app_assoc. reflexivity.
    + left. destruct k as [|k]; cbn [firstn fold_left]; [reflexivity|]. rewrite firstn_nil. reflexivity.
    + left. destruct k as [|k]; cbn [firstn fold_left]; [reflexivity|]. rewrite firstn_nil. reflexivity.
    + left. destruct k as [|k]; cbn [firstn fold_left]; [reflexivity|]. rewrite firstn_nil. reflexivity.
Qed.

(* C08: whatever prefix of the steps is executed before a failure or crash, the files of the file
   system are either untouched or - only after all steps, and only if the stream ended without
   error - differ exactly by dest := the received bytes *)
Theorem save_atomic dest s k f :
  let g := fs_run f (save_steps dest s) k in
  files_unchanged f g
  \/ (snd (consume s) = true /\ (length (save_steps dest s) <= k)%nat
      /\ fs_files g = fs_put dest (chunk_bytes s) (fs_files f)).
Proof.
  unfold fs_run. rewrite save_steps_eq.
  destruct k as [|[|k]]; cbn [firstn fold_left fs_apply]; try (left; reflexivity).
  pose proof (writes_prefix dest s k {| fs_files := fs_files f; fs_tmp := Some [] |} [] eq_refl) as W.
  cbn [fs_files] in W. destruct W as [W|(Hok & Hlen & Hf)]; [left; exact W|right].
  repeat split; [exact Hok|cbn [length]; lia|exact Hf].
Qed.

Lemma fs_get_put_other p q v m : paths_eqb p q = false -> fs_get p (fs_put q v m) = fs_get p m.
Proof.
  intro H. induction m as [|[r w] m IH]; cbn [fs_put fs_get].
  - rewrite H. reflexivity.
  - destruct (paths_eqb q r) eqn:E; cbn [fs_get].
    + rewrite H. assert (paths_eqb p r = false) as ->; [|reflexivity].
      clear - H E. revert q r H E. induction p as [|x p IHp]; intros [|y q] [|z r] H E; cbn in *; try discriminate; auto.
      apply andb_true_iff in E as [E1 E2]. apply bytes_eqb_eq in E1. subst z.
      destruct (bytes_eqb x y); [|reflexivity]. cbn in *. eapply IHp; eassumption.
    + rewrite IH. reflexivity.
Qed.

(* no other path is ever touched *)
Theorem save_touches_only_dest dest s k f p : paths_eqb p dest = false ->
  fs_get p (fs_files (fs_run f (save_steps dest s) k)) = fs_get p (fs_files f).
Proof.
  intro Hp. destruct (save_atomic dest s k f) as [U|(_ & _ & E)].
  - unfold files_unchanged in U. rewrite U. reflexivity.
  - rewrite E. apply fs_get_put_other, Hp.
Qed.

(* ---------------------------------------------------------------------------------------- *)
(* the components of a resolved name, with or without digest prefix, are all normal *)
Lemma split_slash_app c : no_slash c -> forall cur rest,
  split_slash cur (c ++ rest) = split_slash (rev c ++ cur) rest.
Proof.
  induction c as [|x c IH]; intros Hc cur rest; [reflexivity|].
  cbn [app split_slash]. assert (x =? 47 = false) as ->.
  { apply N.eqb_neq. intro E. apply Hc. left. exact E. }
  rewrite IH; [|intro H; apply Hc; right; exact H]. cbn [rev]. rewrite <- app_assoc. reflexivity.
Qed.

Lemma split_join stack : stack <> [] -> Forall no_slash stack ->
  forall cur, no_slash cur ->
  split_slash cur (join_slash stack) = (rev cur ++ hd [] stack) :: tl stack.
Proof.
  induction stack as [|c r IH]; intros Hne Hs cur Hcur; [contradiction|].
  inversion Hs as [|? ? Hc Hr]; subst. destruct r as [|d r].
  - cbn [join_slash hd tl]. rewrite <- (app_nil_r c) at 1. rewrite split_slash_app by exact Hc.
    cbn [split_slash]. rewrite rev_app_distr, rev_involutive. reflexivity.
  - assert (J : join_slash (c :: d :: r) = c ++ 47 :: join_slash (d :: r)) by reflexivity.
    rewrite J. cbn [hd tl]. rewrite split_slash_app by exact Hc.
    assert (S : forall cu rest, split_slash cu (47 :: rest) = rev cu :: split_slash [] rest) by reflexivity.
    rewrite S, rev_app_distr, rev_involutive. f_equal.
    rewrite (IH ltac:(discriminate) Hr [] ltac:(intros [])). reflexivity.
Qed.

Lemma normal_filter stack : Forall normal_comp stack ->
  filter (fun c => negb (is_empty c || is_dot c)) stack = stack.
Proof.
  induction 1 as [|c r [Hn _] Hr IH]; [reflexivity|]. cbn [filter].
  unfold is_normal in Hn. apply negb_true_iff in Hn.
  apply orb_false_iff in Hn as [Hn _]. rewrite Hn. cbn [negb]. rewrite IH. reflexivity.
Qed.

Theorem resolved_components name r : clean_name name = inr r ->
  Forall normal_comp (std_components r) /\ std_components r <> [].
Proof.
  intro H. destruct (clean_name_normal _ _ H) as (absolute & stack & -> & Hne & Hs).
  assert (Hns : Forall no_slash stack) by (eapply Forall_impl; [|exact Hs]; intros c [_ X]; exact X).
  unfold std_components. destruct absolute; cbn [app].
  - cbn [split_slash]. change (47 =? 47) with true. cbv iota. cbn [rev filter is_empty orb negb].
    rewrite (split_join stack Hne Hns [] ltac:(intros [])). cbn [rev app].
    destruct stack as [|c r]; [contradiction|]. cbn [hd tl]. rewrite normal_filter by exact Hs. split; [exact Hs|discriminate].
  - rewrite (split_join stack Hne Hns [] ltac:(intros [])). cbn [rev app].
    destruct stack as [|c r]; [contradiction|]. cbn [hd tl]. rewrite normal_filter by exact Hs. split; [exact Hs|discriminate].
Qed.

(* with the digest prefix: <hex>.<resolved name> *)
Theorem prefixed_components name r hex : clean_name name = inr r ->
  no_slash hex -> hex <> [] -> ~ In 46 hex ->
  Forall normal_comp (std_components (hex ++ [46] ++ r)) /\ std_components (hex ++ [46] ++ r) <> [].
Proof.
  intros H Hh Hne H46. destruct (clean_name_normal _ _ H) as (absolute & stack & -> & Hsn & Hs).
  assert (Hns : Forall no_slash stack) by (eapply Forall_impl; [|exact Hs]; intros c [_ X]; exact X).
  assert (Hp : no_slash (hex ++ [46])).
  { intro X. apply in_app_or in X as [X|[X|[]]]; [exact (Hh X)|discriminate]. }
  assert (Hnorm : forall tail, no_slash tail -> normal_comp ((hex ++ [46]) ++ tail)).
  { intros tail Ht. split.
    - unfold is_normal, is_empty, is_dot, is_dotdot.
      destruct hex as [|h0 hex']; [contradiction|]. cbn [app].
      assert (h0 <> 46) by (intro E; apply H46; left; exact E).
      destruct hex' as [|h1 hex'']; cbn [app bytes_eqb].
      + (* one-character prefix followed by '.' *)
        apply N.eqb_neq in H0. rewrite H0. cbn. reflexivity.
      + apply N.eqb_neq in H0. rewrite H0. cbn. reflexivity.
    - intro X. apply in_app_or in X as [X|X]; [exact (Hp X)|exact (Ht X)]. }
  assert (S : forall cu rest, split_slash cu (47 :: rest) = rev cu :: split_slash [] rest) by reflexivity.
  unfold std_components. rewrite app_assoc.
  destruct stack as [|c rr]; [contradiction|].
  inversion Hs as [|? ? [Hc1 Hc2] Hrr]; subst.
  destruct absolute; cbn [app].
  - rewrite split_slash_app by exact Hp. rewrite S, app_nil_r, rev_involutive.
    rewrite (split_join (c :: rr) Hsn Hns [] ltac:(intros [])). cbn [rev app hd tl].
    match goal with |- context [filter _ ?l] => set (L := l) end.
    assert (All : Forall normal_comp L).
    { subst L. constructor; [|exact Hs]. pose proof (Hnorm [] ltac:(intros [])) as X. rewrite app_nil_r in X. exact X. }
    rewrite (normal_filter L All). split; [exact All|subst L; discriminate].
  - rewrite split_slash_app by exact Hp.
    match goal with |- context [split_slash ?cu (join_slash (c :: rr))] =>
      replace cu with (rev (hex ++ [46])) by (symmetry; apply app_nil_r) end.
    rewrite (split_join (c :: rr) Hsn Hns (rev (hex ++ [46])) ltac:(intro X; apply in_rev in X; exact (Hp X))).
    rewrite rev_involutive. cbn [hd tl].
    match goal with |- context [filter _ ?l] => set (L := l) end.
    assert (All : Forall normal_comp L).
    { subst L. constructor; [apply Hnorm, Hc2|exact Hrr]. }
    rewrite (normal_filter L All). split; [exact All|subst L; discriminate].
Qed.
