From ToughV Require Import Model.Base Model.Sig.
From Coq Require Import Permutation ZifyBool ZifyN ZifyNat.

Lemma memN_In x l : memN x l = true <-> In x l.
Proof.
  unfold memN. rewrite existsb_exists. split.
  - intros (y & Hy & E). apply N.eqb_eq in E. subst. exact Hy.
  - intro H. exists x. split; [exact H|apply N.eqb_refl].
Qed.

Lemma memN_false x l : memN x l = false <-> ~ In x l.
Proof. rewrite <- memN_In. destruct (memN x l); split; congruence. Qed.

Lemma dedup_In x l : In x (dedup l) <-> In x l.
Proof.
  induction l as [|y l IH]; [reflexivity|]. cbn [dedup]. destruct (memN y l) eqn:E.
  - rewrite IH. split; [right; assumption|]. intros [->|H]; [apply memN_In, E|exact H].
  - cbn [In]. rewrite IH. reflexivity.
Qed.

Lemma dedup_NoDup l : NoDup (dedup l).
Proof.
  induction l as [|y l IH]; [constructor|]. cbn [dedup]. destruct (memN y l) eqn:E; [exact IH|].
  constructor; [|exact IH]. rewrite dedup_In. apply memN_false, E.
Qed.

Definition card (l : list N) : nat := length (dedup l).

Lemma card_equiv l1 l2 : (forall x, In x l1 <-> In x l2) -> card l1 = card l2.
Proof.
  intro H. unfold card. apply Permutation_length. apply NoDup_Permutation; try apply dedup_NoDup.
  intro x. rewrite !dedup_In. apply H.
Qed.

Lemma card_cons_new c l : ~ In c l -> card (c :: l) = S (card l).
Proof. intro H. unfold card. cbn [dedup]. apply memN_false in H. rewrite H. reflexivity. Qed.

Lemma card_cons_old c l : In c l -> card (c :: l) = card l.
Proof. intro H. unfold card. cbn [dedup]. apply memN_In in H. rewrite H. reflexivity. Qed.

Definition neqb (c x : N) : bool := negb (x =? c).

Lemma card_cons_filter c l : card (c :: l) = S (card (filter (neqb c) l)).
Proof.
  rewrite <- (card_cons_new c (filter (neqb c) l)).
  - apply card_equiv. intro x. cbn [In]. rewrite filter_In. unfold neqb. split.
    + intros [->|H]; [left; reflexivity|]. destruct (N.eqb_spec x c); [left; auto|right; split; auto].
    + intros [->|[H _]]; auto.
  - rewrite filter_In. unfold neqb. rewrite N.eqb_refl. intros [_ H]. discriminate.
Qed.

Lemma memN_cons x c seen : memN x (c :: seen) = (x =? c) || memN x seen.
Proof. reflexivity. Qed.

Lemma filter_seen_cons c seen l :
  filter (neqb c) (filter (fun x => negb (memN x seen)) l)
  = filter (fun x => negb (memN x (c :: seen))) l.
Proof.
  induction l as [|x l IH]; [reflexivity|]. cbn [filter]. rewrite memN_cons.
  destruct (memN x seen) eqn:E1; cbn [negb].
  - rewrite orb_true_r. cbn [negb]. exact IH.
  - rewrite orb_false_r. cbn [filter]. unfold neqb at 1. destruct (x =? c); cbn [negb]; [exact IH|].
    f_equal. exact IH.
Qed.

Section Verify.
  Variables table keyids : list N.

  Definition counted (s : sig) : bool := memN (s_claim s) keyids && sig_valid table s.
  Definition claims (sigs : list sig) : list N := map s_claim (filter counted sigs).

  Lemma count_distinct_card sigs : forall seen,
    count_distinct table keyids seen sigs
    = N.of_nat (card (filter (fun c => negb (memN c seen)) (claims sigs))).
  Proof.
    induction sigs as [|s r IH]; intro seen; [reflexivity|].
    cbn [count_distinct]. unfold claims in *. cbn [filter]. fold (counted s).
    destruct (counted s) eqn:Ec; [|apply IH].
    cbn [map filter]. destruct (memN (s_claim s) seen) eqn:Es; cbn [negb]; [apply IH|].
    rewrite IH, card_cons_filter.
    replace (filter (neqb (s_claim s)) (filter (fun c => negb (memN c seen)) (map s_claim (filter counted r))))
      with (filter (fun c => negb (memN c (s_claim s :: seen))) (map s_claim (filter counted r))); [lia|].
    symmetry. apply filter_seen_cons.
  Qed.

  Lemma good_signers_NoDup sigs : NoDup (good_signers table keyids sigs).
  Proof. unfold good_signers. apply NoDup_filter, dedup_NoDup. Qed.

  Lemma good_signers_In sigs k :
    In k (good_signers table keyids sigs) <-> In k (claims sigs).
  Proof.
    unfold good_signers, claims. rewrite filter_In, dedup_In, in_map_iff. unfold good_signer.
    rewrite andb_true_iff, existsb_exists, memN_In. split.
    - intros (Hk & _ & s & Hs & Hv). apply andb_true_iff in Hv as [Hc Hv]. apply N.eqb_eq in Hc.
      exists s. split; [exact Hc|]. apply filter_In. split; [exact Hs|]. unfold counted.
      rewrite Hc, Hv. apply memN_In in Hk. rewrite Hk. reflexivity.
    - intros (s & Hc & Hs). apply filter_In in Hs as [Hs Hv]. unfold counted in Hv.
      apply andb_true_iff in Hv as [Hm Hv]. subst k. apply memN_In in Hm. repeat split; auto.
      exists s. split; [exact Hs|]. rewrite N.eqb_refl, Hv. reflexivity.
  Qed.

  Theorem count_distinct_spec sigs :
    count_distinct table keyids [] sigs = N.of_nat (length (good_signers table keyids sigs)).
  Proof.
    rewrite count_distinct_card. f_equal.
    replace (filter (fun c => negb (memN c [])) (claims sigs)) with (claims sigs).
    - unfold card. apply Permutation_length. apply NoDup_Permutation.
      + apply dedup_NoDup.
      + apply good_signers_NoDup.
      + intro x. rewrite dedup_In, good_signers_In. reflexivity.
    - induction (claims sigs) as [|x l IHl]; [reflexivity|]. cbn [filter memN existsb negb]. f_equal. exact IHl.
  Qed.

  Theorem verify_distinct_spec threshold sigs :
    verify_distinct table keyids threshold sigs = spec_accept table keyids threshold sigs.
  Proof. unfold verify_distinct, spec_accept. rewrite count_distinct_spec. reflexivity. Qed.

  (* what never counts *)
  Lemma good_signer_ext sigs1 sigs2 :
    (forall k, In k keyids ->
       existsb (fun s => (s_claim s =? k) && sig_valid table s) sigs1
       = existsb (fun s => (s_claim s =? k) && sig_valid table s) sigs2) ->
    good_signers table keyids sigs1 = good_signers table keyids sigs2.
  Proof.
    intro H. unfold good_signers. apply filter_ext_in. intros k Hk. rewrite dedup_In in Hk.
    unfold good_signer. rewrite (H k Hk). reflexivity.
  Qed.

  Lemma no_credit_invalid l1 s l2 : sig_valid table s = false ->
    good_signers table keyids (l1 ++ s :: l2) = good_signers table keyids (l1 ++ l2).
  Proof.
    intro Hv. apply good_signer_ext. intros k _. rewrite !existsb_app. cbn [existsb].
    rewrite Hv, andb_false_r. reflexivity.
  Qed.

  Lemma no_credit_unauthorised l1 s l2 : memN (s_claim s) keyids = false ->
    good_signers table keyids (l1 ++ s :: l2) = good_signers table keyids (l1 ++ l2).
  Proof.
    intro Hm. apply good_signer_ext. intros k Hk. rewrite !existsb_app. cbn [existsb].
    destruct (s_claim s =? k) eqn:E; [|reflexivity].
    apply N.eqb_eq in E. subst k. apply memN_In in Hk. congruence.
  Qed.

  Lemma no_credit_duplicate l1 s l2 s' :
    In s' (l1 ++ l2) -> s_claim s' = s_claim s -> sig_valid table s' = true ->
    good_signers table keyids (l1 ++ s :: l2) = good_signers table keyids (l1 ++ l2).
  Proof.
    intros Hin Hc Hv. apply good_signer_ext. intros k _.
    destruct (existsb (fun s0 => (s_claim s0 =? k) && sig_valid table s0) (l1 ++ l2)) eqn:E.
    - rewrite existsb_app in *. cbn [existsb]. apply orb_true_iff in E as [E|E]; rewrite E; cbn;
        rewrite ?orb_true_r; reflexivity.
    - rewrite existsb_app in *. cbn [existsb]. apply orb_false_iff in E as [E1 E2]. rewrite E1, E2.
      cbn [orb]. rewrite orb_false_r.
      destruct ((s_claim s =? k) && sig_valid table s) eqn:Es; [|reflexivity].
      apply andb_true_iff in Es as [Ek _]. apply N.eqb_eq in Ek. exfalso.
      assert (X : existsb (fun s0 => (s_claim s0 =? k) && sig_valid table s0) (l1 ++ l2) = true).
      { apply existsb_exists. exists s'. split; [exact Hin|]. rewrite Hc, Ek, N.eqb_refl, Hv. reflexivity. }
      rewrite existsb_app, E1, E2 in X. discriminate.
  Qed.
End Verify.

(* what makes a signature invalid: unknown key, key absent from the table, signature made by another
   key, signature over other content *)
Lemma sig_valid_false_cases table s :
  memN (s_claim s) table = false \/ s_by s <> s_claim s \/ s_ok s = false -> sig_valid table s = false.
Proof.
  unfold sig_valid. intros [H|[H|H]].
  - rewrite H. reflexivity.
  - apply N.eqb_neq in H. rewrite H, andb_false_r. reflexivity.
  - rewrite H, andb_false_r. reflexivity.
Qed.

(* the counter of Delegations::verify_role before the repair of F1 credits repeated signatures *)
Lemma verify_all_refuted :
  exists table keyids threshold sigs,
    verify_all table keyids threshold sigs = true /\ spec_accept table keyids threshold sigs = false.
Proof.
  exists [4; 5], [4; 5], 2, [{| s_claim := 4; s_by := 4; s_ok := true |}; {| s_claim := 4; s_by := 4; s_ok := true |}].
  split; vm_compute; reflexivity.
Qed.

(* non-vacuity: a threshold-3 role with 4 keys accepted on 3 distinct signers among noise *)
Example accept_example :
  verify_distinct [1; 2; 3; 4; 9] [1; 2; 3; 4] 3
    [{| s_claim := 1; s_by := 1; s_ok := true |}; {| s_claim := 1; s_by := 1; s_ok := true |};
     {| s_claim := 9; s_by := 9; s_ok := true |}; {| s_claim := 2; s_by := 2; s_ok := false |};
     {| s_claim := 3; s_by := 3; s_ok := true |}; {| s_claim := 4; s_by := 4; s_ok := true |}] = true.
Proof. vm_compute. reflexivity. Qed.
