(* Work done by load_delegations (model with all repairs), whatever the repository serves:
   - the recursion is never deeper than the number of entries of the trusted snapshot (every role on
     the current path is listed there and no role is its own ancestor), so the fuel of the model is
     never exhausted once it exceeds that number: the real, unbounded recursion terminates;
   - every request is for the file of a role listed in the snapshot, under the name the entry
     determines; if no file is requested twice there are at most as many requests as entries. *)
From ToughV Require Import Model.Base Model.Pct Model.Sig Model.Glob Model.Deleg Model.Client.
From ToughV Require Import Proofs.BaseP Proofs.SigP Proofs.ClientP Proofs.DelegLoadP Proofs.LivenessP.
From Coq Require Import ZifyBool ZifyN ZifyNat.

Definition no_oof {A} (r : res A) : Prop :=
  match r with Err c _ => c <> E_OutOfFuel | Ok _ => True end.

Lemma ds_op_no_oof fx w full trunc r w' : ds_op fx w full trunc = (r, w') -> no_oof r.
Proof.
  unfold ds_op. intro H. repeat break_hyp H; inv H; cbn; try exact I; discriminate.
Qed.

Lemma json_of_inj a b : json_of a = json_of b -> a = b.
Proof. unfold json_of. apply app_inv_tail. Qed.

Lemma lookup_some_in_keys {V} k (m : list (bytes * V)) : lookup k m <> None -> In k (map fst m).
Proof.
  induction m as [|[k' v] m IH]; cbn [lookup map fst]; [congruence|].
  destruct (bytes_eqb k k') eqn:E; [apply bytes_eqb_eq in E; subst; left; reflexivity|]. intro H. right. apply IH, H.
Qed.

Lemma NoDup_snoc {A} (l : list A) x : NoDup l -> ~ In x l -> NoDup (l ++ [x]).
Proof.
  induction 1 as [|a l Hn ND IH]; intro Hx; cbn [app]; [constructor; [intros []|constructor]|].
  constructor.
  - intro Hin. apply in_app_or in Hin as [Hin|[<-|[]]]; [contradiction|apply Hx; left; reflexivity].
  - apply IH. intro Hin. apply Hx. right. exact Hin.
Qed.

Section Bound.
  Variables (cfg : config) (srv : server) (snap : snapshot) (cs : bool) (lim : N).

  (* the roles on the current delegation path: pairwise distinct, and each a top-level role name (where the
     path starts) or listed in the snapshot *)
  Definition anc_ok (anc : list bytes) : Prop :=
    NoDup anc /\ forall a, In a anc -> lookup (json_of a) (sn_meta snap) <> None \/ In a (top_ancestors fixed).

  Lemma anc_ok_length anc : anc_ok anc -> (length anc <= length (sn_meta snap) + 4)%nat.
  Proof.
    intros (ND & Hall).
    assert (ND' : NoDup (map json_of anc)).
    { clear Hall. induction ND as [|a l Hn ND IH]; cbn [map]; constructor; [|exact IH].
      intro Hin. apply in_map_iff in Hin as (b & E & Hb). apply json_of_inj in E. subst b. contradiction. }
    assert (Hincl : incl (map json_of anc) (map fst (sn_meta snap) ++ map json_of (top_ancestors fixed))).
    { intros k Hk. apply in_map_iff in Hk as (a & <- & Ha). apply in_or_app.
      destruct (Hall a Ha) as [Hl|Ht]; [left; apply lookup_some_in_keys, Hl|right; apply in_map, Ht]. }
    pose proof (NoDup_incl_length ND' Hincl) as Hlen. rewrite app_length, !map_length in Hlen.
    cbn [top_ancestors fixed fx_reserved_names length] in Hlen. exact Hlen.
  Qed.

  Lemma anc_ok_snoc anc name : anc_ok anc -> ~ In name anc -> lookup (json_of name) (sn_meta snap) <> None ->
    anc_ok (anc ++ [name]).
  Proof.
    intros (ND & Hall) Hn Hl. split.
    - apply NoDup_snoc; assumption.
    - intros a Ha. apply in_app_or in Ha as [Ha|[<-|[]]]; [apply Hall, Ha|left; exact Hl].
  Qed.

  (* ---- what fetch_level lets through ---- *)
  Definition passed (anc : list bytes) (name : bytes) : Prop :=
    ~ In name anc /\ lookup (json_of name) (sn_meta snap) <> None.

  Lemma fetch_level_passed dkeys all anc : forall todo acc w r w',
    fetch_level fixed cfg srv snap cs lim dkeys all todo anc acc w = (r, w') ->
    no_oof r
    /\ forall fetched, r = Ok fetched -> forall name t, In (name, t) fetched -> In (name, t) acc \/ passed anc name.
  Proof.
    induction todo as [|[h o] rest IH]; intros acc w r w' H; cbn [fetch_level] in H.
    { inv H. split; [exact I|]. intros f E name t Hin. inv E. left. exact Hin. }
    cbn [fixed fx_ancestors andb] in H.
    destruct (mem_bytes (dh_name h) anc) eqn:M.
    { inv H. split; [cbn; discriminate|intros; discriminate]. }
    destruct (lookup (json_of (dh_name h)) (sn_meta snap)) as [m|] eqn:Hm.
    2:{ inv H. split; [cbn; discriminate|intros; discriminate]. }
    match type of H with context [fetch ?a ?b ?c ?d] => destruct (fetch a b c d) as [file|sub] end.
    2:{ inv H. split; [cbn; discriminate|intros; discriminate]. }
    destruct (f_body file) as [| | | |t0]; try (inv H; split; [cbn; discriminate|intros; discriminate]).
    destruct (negb (deleg_verify fixed dkeys all (dh_name h) (tg_sigs t0))).
    { inv H. split; [cbn; discriminate|intros; discriminate]. }
    destruct (negb (tg_version t0 =? m_version m)).
    { inv H. split; [cbn; discriminate|intros; discriminate]. }
    match type of H with context [ds_op ?a ?b ?c ?d] => destruct (ds_op a b c d) as [[u|c2 a2] w2] eqn:E end.
    2:{ inv H. split; [exact (ds_op_no_oof _ _ _ _ _ _ E)|intros; discriminate]. }
    destruct (IH _ _ _ _ H) as (N & Hf). split; [exact N|].
    intros fetched Er name t Hin. destruct (Hf fetched Er name t Hin) as [Hacc|Hp]; [|right; exact Hp].
    apply assoc_insert_In in Hacc as [Eq|Hacc]; [|left; exact Hacc].
    inversion Eq; subst. right. split.
    - intro Hi. apply mem_bytes_In in Hi. congruence.
    - rewrite Hm. discriminate.
  Qed.

  (* ---- termination ---- *)
  Definition rec_term (bound : nat)
             (rec : list N -> list (dhdr * option targets) -> list bytes -> world
                    -> res (list (dhdr * option targets)) * world) : Prop :=
    forall dk rs anc w r w', anc_ok anc -> (bound <= length anc)%nat -> rec dk rs anc w = (r, w') -> no_oof r.

  Lemma second_loop_term rec bound anc : rec_term bound rec -> anc_ok anc -> (bound <= S (length anc))%nat ->
    forall todo remaining w r w',
      (forall name t, In (name, t) remaining -> passed anc name) ->
      second_loop rec anc todo remaining w = (r, w') -> no_oof r.
  Proof.
    intros Hrec Hanc Hb. induction todo as [|[h o] rest IH]; intros remaining w r w' Hrem H; cbn [second_loop] in H.
    { inv H. exact I. }
    destruct (lookup (dh_name h) remaining) as [t0|] eqn:Hl.
    2:{ inv H. cbn. discriminate. }
    assert (Hp : passed anc (dh_name h)) by (eapply Hrem, lookup_In, Hl).
    assert (Hrem' : forall name t, In (name, t) (assoc_remove (dh_name h) remaining) -> passed anc name).
    { intros name t Hin. eapply Hrem, assoc_remove_In, Hin. }
    destruct (tg_has_deleg t0).
    - destruct (rec (tg_dkeys t0) (tg_roles t0) (anc ++ [dh_name h]) w) as [[rs'|c a] w1] eqn:E.
      + destruct (second_loop rec anc rest (assoc_remove (dh_name h) remaining) w1) as [[rs2|c a] w2] eqn:E2;
          apply (IH _ _ _ _ Hrem') in E2; inv H; [exact I|exact E2].
      + inv H. eapply Hrec; [| |exact E].
        * destruct Hp. apply anc_ok_snoc; assumption.
        * rewrite app_length. cbn [length]. lia.
    - destruct (second_loop rec anc rest (assoc_remove (dh_name h) remaining) w) as [[rs2|c a] w2] eqn:E2;
        apply (IH _ _ _ _ Hrem') in E2; inv H; [exact I|exact E2].
  Qed.

  (* with [fuel] levels left and [length anc] roles on the path, fuel is not exhausted as long as
     fuel + length anc exceeds the number of snapshot entries plus the four top-level names *)
  Theorem load_delegs_term : forall fuel dk rs anc w r w',
    anc_ok anc -> (length (sn_meta snap) + 4 < fuel + length anc)%nat ->
    load_delegs fixed cfg srv snap cs lim fuel dk rs anc w = (r, w') -> no_oof r.
  Proof.
    induction fuel as [|f IH]; intros dk rs anc w r w' Hanc Hlen H.
    { pose proof (anc_ok_length anc Hanc). lia. }
    cbn [load_delegs] in H.
    destruct (fetch_level fixed cfg srv snap cs lim dk rs rs anc [] w) as [[fetched|c a] w1] eqn:E;
      destruct (fetch_level_passed _ _ _ _ _ _ _ _ E) as (N & Hf).
    2:{ inv H. exact N. }
    eapply (second_loop_term (load_delegs fixed cfg srv snap cs lim f) (length (sn_meta snap) + 5 - f));
      [|exact Hanc|lia| |exact H].
    - intros dk' rs' anc' w0 r0 w0' Hanc' Hb H0. eapply IH; [exact Hanc'|lia|exact H0].
    - intros name t Hin. destruct (Hf fetched eq_refl name t Hin) as [[]|Hp]. exact Hp.
  Qed.

  (* ---- requests ---- *)
  Definition deleg_req (path : bytes) : Prop :=
    exists name m, lookup (json_of name) (sn_meta snap) = Some m /\ path = role_filename cs (m_version m) name.

  Definition logs_only (w w' : world) : Prop :=
    exists reqs, w_log w' = w_log w ++ reqs /\ Forall deleg_req reqs.

  Lemma logs_only_refl w : logs_only w w.
  Proof. exists []. rewrite app_nil_r. auto. Qed.
  Lemma logs_only_trans a b c : logs_only a b -> logs_only b c -> logs_only a c.
  Proof.
    intros (r1 & E1 & F1) (r2 & E2 & F2). exists (r1 ++ r2). rewrite E2, E1, app_assoc. split; [reflexivity|].
    apply Forall_app. auto.
  Qed.

  Lemma fetch_level_log dkeys all anc : forall todo acc w r w',
    fetch_level fixed cfg srv snap cs lim dkeys all todo anc acc w = (r, w') -> logs_only w w'.
  Proof.
    induction todo as [|[h o] rest IH]; intros acc w r w' H; cbn [fetch_level] in H.
    { inv H. apply logs_only_refl. }
    destruct (fx_ancestors fixed && mem_bytes (dh_name h) anc); [inv H; apply logs_only_refl|].
    destruct (lookup (json_of (dh_name h)) (sn_meta snap)) as [m|] eqn:Hm; [|inv H; apply logs_only_refl].
    set (path := role_filename cs (m_version m) (dh_name h)) in *.
    assert (L1 : logs_only w (logged w path)).
    { exists [path]. split; [reflexivity|]. constructor; [|constructor]. exists (dh_name h), m. auto. }
    match type of H with context [fetch ?a ?b ?c ?d] => destruct (fetch a b c d) as [file|sub] end; [|inv H; exact L1].
    destruct (f_body file) as [| | | |t0]; try (inv H; exact L1).
    destruct (negb (deleg_verify fixed dkeys all (dh_name h) (tg_sigs t0))); [inv H; exact L1|].
    destruct (negb (tg_version t0 =? m_version m)); [inv H; exact L1|].
    match type of H with context [ds_op ?a ?b ?c ?d] => destruct (ds_op a b c d) as [[u|c2 a2] w2] eqn:E end;
      apply ds_op_log in E.
    - apply IH in H. eapply logs_only_trans; [exact L1|]. destruct H as (reqs & E2 & F2). exists reqs.
      rewrite E2, E. auto.
    - inv H. destruct L1 as (reqs & E1 & F1). exists reqs. rewrite E. auto.
  Qed.

  Definition rec_log (rec : list N -> list (dhdr * option targets) -> list bytes -> world
                            -> res (list (dhdr * option targets)) * world) : Prop :=
    forall dk rs anc w r w', rec dk rs anc w = (r, w') -> logs_only w w'.

  Lemma second_loop_log rec : rec_log rec -> forall todo anc remaining w r w',
    second_loop rec anc todo remaining w = (r, w') -> logs_only w w'.
  Proof.
    intros Hrec. induction todo as [|[h o] rest IH]; intros anc remaining w r w' H; cbn [second_loop] in H.
    { inv H. apply logs_only_refl. }
    destruct (lookup (dh_name h) remaining) as [t|]; [|inv H; apply logs_only_refl].
    destruct (tg_has_deleg t).
    - destruct (rec (tg_dkeys t) (tg_roles t) (anc ++ [dh_name h]) w) as [[rs|c a] w1] eqn:E; apply Hrec in E.
      + destruct (second_loop rec anc rest (assoc_remove (dh_name h) remaining) w1) as [[rs2|c a] w2] eqn:E2;
          apply IH in E2; inv H; eapply logs_only_trans; eassumption.
      + inv H. exact E.
    - destruct (second_loop rec anc rest (assoc_remove (dh_name h) remaining) w) as [[rs2|c a] w2] eqn:E2;
        apply IH in E2; inv H; exact E2.
  Qed.

  Theorem load_delegs_log fuel : rec_log (load_delegs fixed cfg srv snap cs lim fuel).
  Proof.
    induction fuel as [|f IH]; intros dk rs anc w r w' H; cbn [load_delegs] in H.
    { inv H. apply logs_only_refl. }
    destruct (fetch_level fixed cfg srv snap cs lim dk rs rs anc [] w) as [[fetched|c a] w1] eqn:E;
      apply fetch_level_log in E.
    - eapply logs_only_trans; [exact E|]. eapply second_loop_log; [exact IH|exact H].
    - inv H. exact E.
  Qed.

  (* if no file is requested twice, there are at most as many requests as snapshot entries *)
  Theorem distinct_requests_bounded reqs : Forall deleg_req reqs -> NoDup reqs ->
    (length reqs <= length (sn_meta snap))%nat.
  Proof.
    intros F ND.
    assert (exists keys, length keys = length reqs /\ NoDup keys /\ incl keys (map fst (sn_meta snap))
                         /\ forall k, In k keys -> exists name m, k = json_of name
                                /\ lookup k (sn_meta snap) = Some m /\ In (role_filename cs (m_version m) name) reqs)
      as (keys & Hl & NDk & Hincl & _).
    { induction F as [|p l (name & m & Hm & Ep) F IH].
      - exists []. repeat split; [constructor|intros k []|intros k []].
      - inversion ND as [|a b Hn ND']; subst a b.
        destruct (IH ND') as (keys & Hl & NDk & Hincl & Hk).
        exists (json_of name :: keys). split; [cbn; lia|]. split; [|split].
        + constructor; [|exact NDk]. intro Hin. destruct (Hk _ Hin) as (name' & m' & E & Hm' & Hin').
          apply json_of_inj in E. subst name'. rewrite Hm in Hm'. inversion Hm'; subst m'. subst p. contradiction.
        + intros k [<-|Hin]; [apply lookup_some_in_keys; rewrite Hm; discriminate|apply Hincl, Hin].
        + intros k [<-|Hin].
          * exists name, m. split; [reflexivity|]. split; [exact Hm|]. left. exact Ep.
          * destruct (Hk _ Hin) as (name' & m' & E & Hm' & Hin'). exists name', m'. split; [exact E|]. split; [exact Hm'|].
            right. exact Hin'. }
    pose proof (NoDup_incl_length NDk Hincl) as Hlen. rewrite map_length in Hlen. lia.
  Qed.
End Bound.

(* ---------------------------------------------------------------------------------------- *)
(* the root walk: fuel beyond the distance to the update limit is never exhausted *)
Lemma root_walk_term fx cfg srv orig : forall fuel cur w r w',
  update_limit fx orig (c_max_root_updates cfg) - r_version cur < N.of_nat fuel ->
  root_walk fx fuel cfg srv orig cur w = (r, w') -> no_oof r.
Proof.
  induction fuel as [|f IH]; intros cur w r w' Hf H; [lia|]. cbn [root_walk] in H.
  destruct (r_version cur <? update_limit fx orig (c_max_root_updates cfg)) eqn:Hl.
  2:{ inv H. cbn. discriminate. }
  destruct (fetch srv (root_json (r_version cur + 1)) (c_max_root_size cfg) None) as [file|sub].
  - destruct (f_body file) as [| new | | |]; try (inv H; cbn; discriminate).
    destruct (negb (root_verify cur 0 (r_sigs new))); [inv H; cbn; discriminate|].
    destruct (negb (root_verify new 0 (r_sigs new))); [inv H; cbn; discriminate|].
    destruct (r_version new <? r_version cur) eqn:Lt; [inv H; cbn; discriminate|].
    destruct (r_version new =? r_version cur) eqn:Eq; [inv H; exact I|].
    eapply IH; [|exact H]. lia.
  - destruct ((sub =? 0) || (sub =? 1) || (sub =? 5)); inv H; [exact I|cbn; discriminate].
Qed.

Lemma sys_time_no_oof fx now w r w' : sys_time fx now w = (r, w') -> no_oof r.
Proof.
  unfold sys_time. intro H. destruct (time_back now (w_store w)); [inv H; cbn; discriminate|].
  destruct (ds_op fx w (upd_time (Some (SDoc now))) (upd_time (Some SCorrupt))) as [[u|c a] w0] eqn:E;
    apply ds_op_no_oof in E; inv H; [exact I|exact E].
Qed.

Lemma check_expired_no_oof fx cfg now e role w r w' : check_expired fx cfg now e role w = (r, w') -> no_oof r.
Proof.
  unfold check_expired. intro H. destruct (c_enforce cfg); [|inv H; exact I].
  destruct (sys_time fx now w) as [[t|c a] w0] eqn:E; apply sys_time_no_oof in E.
  - destruct (t <=? e)%Z; inv H; [exact I|cbn; discriminate].
  - inv H. exact E.
Qed.

Lemma rm_ts_snap_no_oof fx w r w' : rm_ts_snap fx w = (r, w') -> no_oof r.
Proof.
  unfold rm_ts_snap. intro H.
  destruct (ds_op fx w (upd_ts None) (upd_ts None)) as [[u|c a] w1] eqn:E1; pose proof (ds_op_no_oof _ _ _ _ _ _ E1) as N1.
  - apply ds_op_no_oof in H. exact H.
  - destruct (c =? E_Killed); [inv H; exact N1|].
    destruct (ds_op fx w1 (upd_snap None) (upd_snap None)) as [[u2|c2 a2] w2] eqn:E2;
      pose proof (ds_op_no_oof _ _ _ _ _ _ E2) as N2.
    + inv H. exact N1.
    + destruct (c2 =? E_Killed); inv H; [exact N2|exact N1].
Qed.

(* the whole cycle never runs out of fuel when the fuel exceeds max_root_updates and the number of
   entries of any snapshot the server can serve: the model's fuel only stands for recursion that
   terminates in the code *)
Theorem cycle_terminates c s res w' :
  c_max_root_updates (cy_cfg c) < N.of_nat (c_fuel (cy_cfg c)) ->
  (forall name limit hash file sn, fetch (cy_srv c) name limit hash = FOk file -> f_body file = CSnap sn ->
                                   (length (sn_meta sn) < c_fuel (cy_cfg c))%nat) ->
  run_cycle fixed c s = (res, w') -> no_oof res.
Proof.
  intros Hroot Hsnap H. unfold run_cycle, cycle in H.
  destruct (load_root fixed (cy_cfg c) (cy_shipped c) (cy_srv c) (cy_now c) (world0 s (cy_fault c))) as [[r|c0 a0] w1] eqn:E1.
  2:{ inv H. unfold load_root in E1. destruct (cy_shipped c) as [|r0| | |]; try (inv E1; cbn; discriminate).
      destruct (negb (root_verify r0 0 (r_sigs r0))); [inv E1; cbn; discriminate|].
      destruct (root_walk fixed (c_fuel (cy_cfg c)) (cy_cfg c) (cy_srv c) (r_version r0) r0 (world0 s (cy_fault c)))
        as [[r|cw aw] wa] eqn:Ew.
      - unfold finish_root in E1.
        match type of E1 with context [check_expired ?a ?b ?c ?d ?e ?f] =>
          destruct (check_expired a b c d e f) as [[u|ce ae] w2] eqn:Ec end; apply check_expired_no_oof in Ec.
        2:{ inv E1. exact Ec. }
        destruct (rotated _ r).
        + destruct (rm_ts_snap fixed w2) as [[u3|c3 a3] w3] eqn:E3; apply rm_ts_snap_no_oof in E3.
          2:{ inv E1. exact E3. }
          cbn [fixed fx_prev_root] in E1.
          match type of E1 with context [ds_op ?a ?b ?c ?d] => destruct (ds_op a b c d) as [[u4|c4 a4] w4] eqn:E4 end;
            apply ds_op_no_oof in E4; inv E1. exact E4.
        + cbn [fixed fx_prev_root] in E1.
          match type of E1 with context [ds_op ?a ?b ?c ?d] => destruct (ds_op a b c d) as [[u4|c4 a4] w4] eqn:E4 end;
            apply ds_op_no_oof in E4; inv E1. exact E4.
      - inv E1. refine (root_walk_term _ _ _ _ _ _ _ _ _ _ Ew).
        pose proof (update_limit_bound fixed (r_version r0) (c_max_root_updates (cy_cfg c))). lia. }
  destruct (load_timestamp fixed (cy_cfg c) r (cy_srv c) (cy_now c) w1) as [[ts|c0 a0] w2] eqn:E2.
  2:{ inv H. unfold load_timestamp in E2.
      destruct (fetch (cy_srv c) name_timestamp (c_max_timestamp_size (cy_cfg c)) None) as [file|sub]; [|inv E2; cbn; discriminate].
      destruct (f_body file) as [| |ts| |]; try (inv E2; cbn; discriminate).
      destruct (negb (root_verify r 3 (ts_sigs ts))); [inv E2; cbn; discriminate|].
      match type of E2 with (if ?c then _ else _) = _ => destruct c end; [inv E2; cbn; discriminate|].
      match type of E2 with context [check_expired ?a ?b ?c ?d ?e ?f] =>
        destruct (check_expired a b c d e f) as [[u|ce ae] w3] eqn:Ec end; apply check_expired_no_oof in Ec.
      2:{ inv E2. exact Ec. }
      match type of E2 with context [ds_op ?a ?b ?c ?d] => destruct (ds_op a b c d) as [[u4|c4 a4] w4] eqn:E4 end;
        apply ds_op_no_oof in E4; inv E2. exact E4. }
  destruct (load_snapshot fixed (cy_cfg c) r ts (cy_srv c) (cy_now c) w2) as [[sn|c0 a0] w3] eqn:E3.
  2:{ inv H. unfold load_snapshot in E3.
      destruct (lookup name_snapshot (ts_meta ts)) as [m|]; [|inv E3; cbn; discriminate].
      match type of E3 with context [fetch ?a ?b ?c ?d] => destruct (fetch a b c d) as [file|sub] end; [|inv E3; cbn; discriminate].
      destruct (f_body file) as [| | |sn|]; try (inv E3; cbn; discriminate).
      destruct (negb (sn_version sn =? m_version m)); [inv E3; cbn; discriminate|].
      destruct (negb (root_verify r 1 (sn_sigs sn))); [inv E3; cbn; discriminate|].
      match type of E3 with (match ?chk with Ok _ => _ | Err c a => _ end) = _ => destruct chk as [u0|cc ac] eqn:Ek end.
      2:{ inv E3. repeat break_hyp Ek; inv Ek; cbn; discriminate. }
      match type of E3 with context [check_expired ?a ?b ?c ?d ?e ?f] =>
        destruct (check_expired a b c d e f) as [[u|ce ae] w4] eqn:Ec end; apply check_expired_no_oof in Ec.
      2:{ inv E3. exact Ec. }
      match type of E3 with context [ds_op ?a ?b ?c ?d] => destruct (ds_op a b c d) as [[u4|c4 a4] w5] eqn:E4 end;
        apply ds_op_no_oof in E4; inv E3. exact E4. }
  assert (Hsn : (length (sn_meta sn) < c_fuel (cy_cfg c))%nat).
  { apply load_snapshot_atomic in E3 as (_ & _ & _ & _ & (_ & ((m & file & _ & Hf & Hb & _) & _))); [|reflexivity].
    eapply Hsnap; eassumption. }
  destruct (load_targets fixed (cy_cfg c) r sn (cy_srv c) (cy_now c) w3) as [[t|c0 a0] w4] eqn:E4; inv H; [exact I|].
  unfold load_targets in E4.
  destruct (lookup name_targets (sn_meta sn)) as [m|] eqn:Hm; [|inv E4; cbn; discriminate].
  match type of E4 with context [fetch ?a ?b ?c ?d] => destruct (fetch a b c d) as [file|sub] end; [|inv E4; cbn; discriminate].
  destruct (f_body file) as [| | | |t0]; try (inv E4; cbn; discriminate).
  destruct (negb (tg_version t0 =? m_version m)); [inv E4; cbn; discriminate|].
  destruct (negb (root_verify r 2 (tg_sigs t0))); [inv E4; cbn; discriminate|].
  match type of E4 with (if ?c then _ else _) = _ => destruct c end; [inv E4; cbn; discriminate|].
  match type of E4 with context [check_expired ?a ?b ?c ?d ?e ?f] =>
    destruct (check_expired a b c d e f) as [[u|ce ae] w5] eqn:Ec end; apply check_expired_no_oof in Ec.
  2:{ inv E4. exact Ec. }
  match type of E4 with context [ds_op ?a ?b ?c ?d] => destruct (ds_op a b c d) as [[u6|c6 a6] w6] eqn:E6 end;
    apply ds_op_no_oof in E6.
  2:{ inv E4. exact E6. }
  destruct (tg_has_deleg t0).
  - match type of E4 with context [load_delegs ?a ?b ?c ?d ?e ?f ?g ?h ?i ?j ?k] =>
      destruct (load_delegs a b c d e f g h i j k) as [[rs|c7 a7] w7] eqn:E7 end.
    + destruct (validate (tg_set_roles t0 rs)); inv E4. cbn. discriminate.
    + inv E4. refine (load_delegs_term _ _ _ _ _ _ _ _ _ _ _ _ _ _ E7).
      * split; [|intros a Ha; right; exact Ha].
        cbn [top_ancestors fixed fx_reserved_names]. repeat constructor; cbn [In]; intuition discriminate.
      * cbn [top_ancestors fixed fx_reserved_names length]. lia.
  - destruct (validate t0); inv E4. cbn. discriminate.
Qed.

(* ---------------------------------------------------------------------------------------- *)
(* all requests of a cycle *)
Lemma check_expired_log fx cfg now e role w r w' : check_expired fx cfg now e role w = (r, w') -> w_log w' = w_log w.
Proof. intro H. apply check_expired_frame in H as (_ & L & _). exact L. Qed.

Lemma rm_ts_snap_log fx w r w' : rm_ts_snap fx w = (r, w') -> w_log w' = w_log w.
Proof.
  unfold rm_ts_snap. intro H.
  destruct (ds_op fx w (upd_ts None) (upd_ts None)) as [[u|c a] w1] eqn:E1; apply ds_op_log in E1.
  - apply ds_op_log in H. congruence.
  - destruct (c =? E_Killed); [inv H; exact E1|].
    destruct (ds_op fx w1 (upd_snap None) (upd_snap None)) as [[u2|c2 a2] w2] eqn:E2; apply ds_op_log in E2.
    + inv H. congruence.
    + destruct (c2 =? E_Killed); inv H; congruence.
Qed.

Lemma finish_root_log cfg now ref r w res w' : finish_root fixed cfg now ref r w = (res, w') -> w_log w' = w_log w.
Proof.
  unfold finish_root. intro H.
  destruct (check_expired fixed cfg now (r_expires r) 0 w) as [[u|c a] w2] eqn:E1; apply check_expired_log in E1.
  2:{ inv H. exact E1. }
  destruct (rotated ref r).
  - destruct (rm_ts_snap fixed w2) as [[u3|c a] w3] eqn:E3; apply rm_ts_snap_log in E3.
    2:{ inv H. congruence. }
    cbn [fixed fx_prev_root] in H.
    destruct (ds_op fixed w3 (upd_root (Some (SDoc r))) (upd_root (Some SCorrupt))) as [[u4|c a] w4] eqn:E4;
      apply ds_op_log in E4; inv H; congruence.
  - cbn [fixed fx_prev_root] in H.
    destruct (ds_op fixed w2 (upd_root (Some (SDoc r))) (upd_root (Some SCorrupt))) as [[u4|c a] w4] eqn:E4;
      apply ds_op_log in E4; inv H; congruence.
Qed.

Definition is_root_req (n : bytes) : Prop := exists v, n = root_json v.

Lemma load_root_log cfg shipped srv now w res w' :
  load_root fixed cfg shipped srv now w = (res, w') ->
  exists roots, w_log w' = w_log w ++ roots /\ N.of_nat (length roots) <= c_max_root_updates cfg
                /\ Forall is_root_req roots.
Proof.
  assert (Nil : exists roots, w_log w = w_log w ++ roots /\ N.of_nat (length roots) <= c_max_root_updates cfg
                              /\ Forall is_root_req roots).
  { exists []. rewrite app_nil_r. repeat split; [cbn; lia|constructor]. }
  unfold load_root. intro H. destruct shipped as [|r0| | |]; try (inv H; exact Nil).
  destruct (negb (root_verify r0 0 (r_sigs r0))); [inv H; exact Nil|].
  destruct (root_walk fixed (c_fuel cfg) cfg srv (r_version r0) r0 w) as [[r|c a] w1] eqn:Ew;
    apply root_walk_requests in Ew as (names & L & Hn & Ha);
    pose proof (update_limit_bound fixed (r_version r0) (c_max_root_updates cfg)) as Hb.
  - apply finish_root_log in H. exists names. rewrite H. repeat split; [exact L|lia|exact Ha].
  - inv H. exists names. repeat split; [exact L|lia|exact Ha].
Qed.

Lemma load_timestamp_log cfg r srv now w res w' :
  load_timestamp fixed cfg r srv now w = (res, w') -> w_log w' = w_log w ++ [name_timestamp].
Proof.
  unfold load_timestamp. intro H.
  destruct (fetch srv name_timestamp (c_max_timestamp_size cfg) None) as [file|sub]; [|inv H; reflexivity].
  destruct (f_body file) as [| |ts| |]; try (inv H; reflexivity).
  destruct (negb (root_verify r 3 (ts_sigs ts))); [inv H; reflexivity|].
  match type of H with (if ?c then _ else _) = _ => destruct c end; [inv H; reflexivity|].
  match type of H with context [check_expired ?a ?b ?c ?d ?e ?f] =>
    destruct (check_expired a b c d e f) as [[u|ce ae] w2] eqn:E1 end; apply check_expired_log in E1; rewrite logged_log in E1.
  2:{ inv H. exact E1. }
  match type of H with context [ds_op ?a ?b ?c ?d] => destruct (ds_op a b c d) as [[u4|c4 a4] w4] eqn:E4 end;
    apply ds_op_log in E4; inv H; congruence.
Qed.

Lemma load_snapshot_log cfg r ts srv now w res w' :
  load_snapshot fixed cfg r ts srv now w = (res, w') -> exists l, w_log w' = w_log w ++ l /\ (length l <= 1)%nat.
Proof.
  unfold load_snapshot. intro H.
  destruct (lookup name_snapshot (ts_meta ts)) as [m|].
  2:{ inv H. exists []. rewrite app_nil_r. auto. }
  set (nm := versioned (r_cs r) (m_version m) name_snapshot) in *.
  exists [nm]. split; [|cbn; lia].
  match type of H with context [fetch ?a ?b ?c ?d] => destruct (fetch a b c d) as [file|sub] end; [|inv H; reflexivity].
  destruct (f_body file) as [| | |sn|]; try (inv H; reflexivity).
  destruct (negb (sn_version sn =? m_version m)); [inv H; reflexivity|].
  destruct (negb (root_verify r 1 (sn_sigs sn))); [inv H; reflexivity|].
  match type of H with (match ?chk with Ok _ => _ | Err c a => _ end) = _ => destruct chk as [u0|cc ac] end.
  2:{ inv H. reflexivity. }
  match type of H with context [check_expired ?a ?b ?c ?d ?e ?f] =>
    destruct (check_expired a b c d e f) as [[u|ce ae] w2] eqn:E1 end; apply check_expired_log in E1; rewrite logged_log in E1.
  2:{ inv H. exact E1. }
  match type of H with context [ds_op ?a ?b ?c ?d] => destruct (ds_op a b c d) as [[u4|c4 a4] w4] eqn:E4 end;
    apply ds_op_log in E4; inv H; congruence.
Qed.

Lemma load_targets_log cfg r sn srv now w res w' :
  load_targets fixed cfg r sn srv now w = (res, w') ->
  exists l dreqs, w_log w' = w_log w ++ l ++ dreqs /\ (length l <= 1)%nat
                  /\ Forall (deleg_req sn (r_cs r)) dreqs.
Proof.
  unfold load_targets. intro H.
  destruct (lookup name_targets (sn_meta sn)) as [m|].
  2:{ inv H. exists [], []. rewrite app_nil_r. auto. }
  set (nm := versioned (r_cs r) (m_version m) name_targets) in *.
  assert (One : forall w2, w_log w2 = w_log (logged w nm) ->
                exists l dreqs, w_log w2 = w_log w ++ l ++ dreqs /\ (length l <= 1)%nat
                                /\ Forall (deleg_req sn (r_cs r)) dreqs).
  { intros w2 E. exists [nm], []. rewrite E. split; [reflexivity|]. split; [cbn; lia|constructor]. }
  match type of H with context [fetch ?a ?b ?c ?d] => destruct (fetch a b c d) as [file|sub] end; [|inv H; apply One; reflexivity].
  destruct (f_body file) as [| | | |t0]; try (inv H; apply One; reflexivity).
  destruct (negb (tg_version t0 =? m_version m)); [inv H; apply One; reflexivity|].
  destruct (negb (root_verify r 2 (tg_sigs t0))); [inv H; apply One; reflexivity|].
  match type of H with (if ?c then _ else _) = _ => destruct c end; [inv H; apply One; reflexivity|].
  match type of H with context [check_expired ?a ?b ?c ?d ?e ?f] =>
    destruct (check_expired a b c d e f) as [[u|ce ae] w2] eqn:E1 end; apply check_expired_log in E1.
  2:{ inv H. apply One. exact E1. }
  match type of H with context [ds_op ?a ?b ?c ?d] => destruct (ds_op a b c d) as [[u3|c3 a3] w3] eqn:E3 end;
    apply ds_op_log in E3.
  2:{ inv H. apply One. congruence. }
  destruct (tg_has_deleg t0).
  - match type of H with context [load_delegs ?a ?b ?c ?d ?e ?f ?g ?h ?i ?j ?k] =>
      destruct (load_delegs a b c d e f g h i j k) as [[rs|c4 a4] w4] eqn:E4 end;
      apply load_delegs_log in E4 as (dreqs & L4 & F4).
    + assert (w' = w4) as -> by (destruct (validate (tg_set_roles t0 rs)); inv H; reflexivity).
      exists [nm], dreqs. rewrite L4, E3, E1. split; [rewrite logged_log, <- app_assoc; reflexivity|].
      split; [cbn; lia|exact F4].
    + inv H. exists [nm], dreqs. rewrite L4, E3, E1. split; [rewrite logged_log, <- app_assoc; reflexivity|].
      split; [cbn; lia|exact F4].
  - assert (w' = w3) as -> by (destruct (validate t0); inv H; reflexivity). apply One. congruence.
Qed.

(* every request of a cycle: at most max_root_updates newer roots, then at most three top-level files,
   then files of delegated roles listed in a snapshot the server served (the one the cycle trusts); when
   no delegated file is requested twice, at most as many of them as that snapshot has entries *)
Theorem cycle_requests c s res w' :
  run_cycle fixed c s = (res, w') ->
  exists roots top dreqs,
    w_log w' = roots ++ top ++ dreqs
    /\ N.of_nat (length roots) <= c_max_root_updates (cy_cfg c) /\ Forall is_root_req roots
    /\ (length top <= 3)%nat
    /\ (dreqs = []
        \/ exists cs name limit hash file sn,
             fetch (cy_srv c) name limit hash = FOk file /\ f_body file = CSnap sn
             /\ Forall (deleg_req sn cs) dreqs
             /\ (NoDup dreqs -> (length dreqs <= length (sn_meta sn))%nat)).
Proof.
  unfold run_cycle, cycle. intro H.
  destruct (load_root fixed (cy_cfg c) (cy_shipped c) (cy_srv c) (cy_now c) (world0 s (cy_fault c))) as [[r|c0 a0] w1] eqn:E1;
    apply load_root_log in E1 as (roots & L1 & Hn & Hr); cbn [world0 w_log app] in L1.
  2:{ injection H as _ <-. exists roots, [], []. rewrite !app_nil_r. repeat split; auto. }
  destruct (load_timestamp fixed (cy_cfg c) r (cy_srv c) (cy_now c) w1) as [[ts|c0 a0] w2] eqn:E2;
    apply load_timestamp_log in E2.
  2:{ injection H as _ <-. exists roots, [name_timestamp], []. rewrite app_nil_r, E2, L1. repeat split; auto. }
  destruct (load_snapshot fixed (cy_cfg c) r ts (cy_srv c) (cy_now c) w2) as [[sn|c0 a0] w3] eqn:E3;
    pose proof (load_snapshot_log _ _ _ _ _ _ _ _ E3) as (l3 & L3 & Hl3).
  2:{ injection H as _ <-. exists roots, (name_timestamp :: l3), []. rewrite app_nil_r, L3, E2, L1, <- app_assoc.
      repeat split; auto. cbn [length]. lia. }
  apply load_snapshot_atomic in E3 as (_ & _ & _ & _ & (_ & ((m & file & _ & Hf & Hb & _) & _))); [|reflexivity].
  destruct (load_targets fixed (cy_cfg c) r sn (cy_srv c) (cy_now c) w3) as [rG w4] eqn:E4;
    apply load_targets_log in E4 as (l4 & dreqs & L4 & Hl4 & F4).
  assert (w' = w4) as -> by (destruct rG; injection H as _ <-; reflexivity).
  exists roots, ((name_timestamp :: l3) ++ l4), dreqs.
  split; [rewrite L4, L3, E2, L1; cbn [app]; rewrite <- !app_assoc; reflexivity|].
  split; [exact Hn|]. split; [exact Hr|]. split; [rewrite app_length; cbn [length]; lia|].
  right. exists (r_cs r). do 5 eexists. split; [exact Hf|]. split; [exact Hb|]. split; [exact F4|].
  intro ND. eapply distinct_requests_bounded; eassumption.
Qed.
