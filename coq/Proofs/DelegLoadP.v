(* Functional specification of load_delegations (model with all repairs): every delegated role that
   ends up in the loaded tree was fetched under the name its snapshot entry determines, within the
   entry's length (or the configured limit) and with the entry's digest, has the listed version, and
   verifies under the keys and threshold its delegating role gives it - at every depth. *)
From ToughV Require Import Model.Base Model.Pct Model.Sig Model.Glob Model.Deleg Model.Client.
From ToughV Require Import Proofs.BaseP Proofs.SigP Proofs.ClientP.

Lemma lookup_In {V} k (m : list (bytes * V)) v : lookup k m = Some v -> In (k, v) m.
Proof.
  induction m as [|[k' v'] m IH]; cbn [lookup]; [discriminate|].
  destruct (bytes_eqb k k') eqn:E; intro H.
  - apply bytes_eqb_eq in E. inversion H; subst. left. reflexivity.
  - right. apply IH, H.
Qed.

Lemma assoc_insert_In {V} k (v : V) m x : In x (assoc_insert k v m) -> x = (k, v) \/ In x m.
Proof.
  induction m as [|[k' v'] m IH]; cbn [assoc_insert]; intro H.
  - destruct H as [H|[]]; auto.
  - destruct (bytes_eqb k k').
    + destruct H as [H|H]; [auto|right; right; exact H].
    + destruct H as [H|H]; [right; left; exact H|]. destruct (IH H); [auto|right; right; assumption].
Qed.

Lemma assoc_remove_In {V} k (m : list (bytes * V)) x : In x (assoc_remove k m) -> In x m.
Proof.
  induction m as [|[k' v'] m IH]; cbn [assoc_remove]; intro H; [contradiction|].
  destruct (bytes_eqb k k'); [right; exact H|]. destruct H as [H|H]; [left; exact H|right; apply IH, H].
Qed.

Section Spec.
  Variables (cfg : config) (srv : server) (snap : snapshot) (cs : bool) (lim : N).

  (* what it means for [t0] to be the accepted file of the delegated role [name] *)
  Definition role_fetch_ok (dkeys : list N) (all : list (dhdr * option targets)) (name : bytes) (t0 : targets) : Prop :=
    exists m file,
      lookup (json_of name) (sn_meta snap) = Some m
      /\ fetch srv (role_filename cs (m_version m) name)
               (opt_default (m_length m) (c_max_targets_size cfg)) (m_hash m) = FOk file
      /\ f_body file = CTargets t0
      /\ deleg_verify fixed dkeys all name (tg_sigs t0) = true
      /\ tg_version t0 = m_version m.

  Inductive loaded : list N -> list (dhdr * option targets) -> list (dhdr * option targets) -> Prop :=
  | loaded_intro dkeys roles rs :
      map fst rs = map fst roles ->
      (forall h c, In (h, c) rs ->
         exists t0 t, c = Some t /\ role_fetch_ok dkeys roles (dh_name h) t0
                      /\ ((tg_has_deleg t0 = false /\ t = t0)
                          \/ (tg_has_deleg t0 = true
                              /\ exists rs', t = tg_set_roles t0 rs' /\ loaded (tg_dkeys t0) (tg_roles t0) rs'))) ->
      loaded dkeys roles rs.

  Lemma fetch_level_spec dkeys all : forall todo anc acc w fetched w',
    fetch_level fixed cfg srv snap cs lim dkeys all todo anc acc w = (Ok fetched, w') ->
    forall name t, In (name, t) fetched -> In (name, t) acc \/ role_fetch_ok dkeys all name t.
  Proof.
    induction todo as [|[h o] rest IH]; intros anc acc w fetched w' H name t Hin; cbn [fetch_level] in H.
    { inversion H; subst. left. exact Hin. }
    destruct (fx_ancestors fixed && mem_bytes (dh_name h) anc); [discriminate|].
    destruct (lookup (json_of (dh_name h)) (sn_meta snap)) as [m|] eqn:Hm; [|discriminate].
    cbn [fixed fx_deleg_own_meta] in H.
    destruct (fetch srv (role_filename cs (m_version m) (dh_name h))
                    (opt_default (m_length m) (c_max_targets_size cfg)) (m_hash m)) as [file|sub] eqn:Hf; [|discriminate].
    destruct (f_body file) as [| | | |t0] eqn:Hb; try discriminate.
    destruct (deleg_verify fixed dkeys all (dh_name h) (tg_sigs t0)) eqn:Hv; cbn [negb] in H; [|discriminate].
    destruct (tg_version t0 =? m_version m) eqn:Ev; cbn [negb] in H; [|discriminate].
    match type of H with context [ds_op ?a ?b ?c ?d] => destruct (ds_op a b c d) as [[u|c2 a2] w2] end; [|discriminate].
    destruct (IH _ _ _ _ _ H name t Hin) as [Hacc|Hok]; [|right; exact Hok].
    apply assoc_insert_In in Hacc as [E|Hacc]; [|left; exact Hacc].
    inversion E; subst. right. exists m, file. repeat split; auto. apply N.eqb_eq, Ev.
  Qed.

  Definition rec_spec (rec : list N -> list (dhdr * option targets) -> list bytes -> world
                             -> res (list (dhdr * option targets)) * world) : Prop :=
    forall dk rs anc w out w', rec dk rs anc w = (Ok out, w') -> loaded dk rs out.

  Lemma second_loop_spec rec dkeys all : rec_spec rec -> forall todo anc remaining w out w',
    second_loop rec anc todo remaining w = (Ok out, w') ->
    (forall name t, In (name, t) remaining -> role_fetch_ok dkeys all name t) ->
    map fst out = map fst todo
    /\ forall h c, In (h, c) out ->
         exists t0 t, c = Some t /\ role_fetch_ok dkeys all (dh_name h) t0
                      /\ ((tg_has_deleg t0 = false /\ t = t0)
                          \/ (tg_has_deleg t0 = true
                              /\ exists rs', t = tg_set_roles t0 rs' /\ loaded (tg_dkeys t0) (tg_roles t0) rs')).
  Proof.
    intros Hrec. induction todo as [|[h o] rest IH]; intros anc remaining w out w' H Hrem; cbn [second_loop] in H.
    { inversion H; subst. split; [reflexivity|]. intros h c []. }
    destruct (lookup (dh_name h) remaining) as [t0|] eqn:Hl; [|discriminate].
    assert (Hok : role_fetch_ok dkeys all (dh_name h) t0) by (apply Hrem, lookup_In, Hl).
    assert (Hrem' : forall name t, In (name, t) (assoc_remove (dh_name h) remaining) -> role_fetch_ok dkeys all name t).
    { intros name t Hin. apply Hrem. eapply assoc_remove_In. exact Hin. }
    destruct (tg_has_deleg t0) eqn:Hd.
    - destruct (rec (tg_dkeys t0) (tg_roles t0) (anc ++ [dh_name h]) w) as [[rs'|c a] w1] eqn:E; [|discriminate].
      apply Hrec in E.
      destruct (second_loop rec anc rest (assoc_remove (dh_name h) remaining) w1) as [[rs2|c a] w2] eqn:E2; [|discriminate].
      inversion H; subst. destruct (IH _ _ _ _ _ E2 Hrem') as [Hm Hall].
      split; [cbn [map fst]; f_equal; exact Hm|].
      intros h' c' [Hin|Hin]; [|apply Hall, Hin].
      inversion Hin; subst. exists t0, (tg_set_roles t0 rs'). split; [reflexivity|]. split; [exact Hok|].
      right. split; [exact Hd|]. exists rs'. split; [reflexivity|exact E].
    - destruct (second_loop rec anc rest (assoc_remove (dh_name h) remaining) w) as [[rs2|c a] w2] eqn:E2; [|discriminate].
      inversion H; subst. destruct (IH _ _ _ _ _ E2 Hrem') as [Hm Hall].
      split; [cbn [map fst]; f_equal; exact Hm|].
      intros h' c' [Hin|Hin]; [|apply Hall, Hin].
      inversion Hin; subst. exists t0, t0. split; [reflexivity|]. split; [exact Hok|]. left. split; [exact Hd|reflexivity].
  Qed.

  Theorem load_delegs_spec fuel : rec_spec (load_delegs fixed cfg srv snap cs lim fuel).
  Proof.
    induction fuel as [|f IH]; intros dk rs anc w out w' H; cbn [load_delegs] in H; [discriminate|].
    destruct (fetch_level fixed cfg srv snap cs lim dk rs rs anc [] w) as [[fetched|c a] w1] eqn:E; [|discriminate].
    pose proof (fetch_level_spec dk rs rs anc [] w fetched w1 E) as Hf.
    destruct (second_loop_spec _ dk rs IH rs anc fetched w1 out w' H) as [Hm Hall].
    - intros name t Hin. destruct (Hf name t Hin) as [[]|Hok]. exact Hok.
    - constructor; assumption.
  Qed.
End Spec.

(* the top-level targets of a successful load_targets carry a loaded tree *)
Lemma load_targets_tree cfg r sn srv now w t w' :
  load_targets fixed cfg r sn srv now w = (Ok t, w') ->
  tg_has_deleg t = true ->
  exists t0, t = tg_set_roles t0 (tg_roles t)
             /\ loaded cfg srv sn (r_cs r) (tg_dkeys t0) (tg_roles t0) (tg_roles t)
             /\ tg_dkeys t = tg_dkeys t0.
Proof.
  intros H Hd. unfold load_targets in H.
  destruct (lookup name_targets (sn_meta sn)) as [m|]; [|discriminate].
  match type of H with context [fetch ?a ?b ?c ?d] => destruct (fetch a b c d) as [file|sub] end; [|discriminate].
  destruct (f_body file) as [| | | |t0]; try discriminate.
  destruct (negb (tg_version t0 =? m_version m)); [discriminate|].
  destruct (negb (root_verify r 2 (tg_sigs t0))); [discriminate|].
  match type of H with context [if ?c then (Err E_Older 2, _) else _] => destruct c end; [discriminate|].
  match type of H with context [check_expired ?a ?b ?c ?d ?e ?f] => destruct (check_expired a b c d e f) as [[u|c0 a0] w2] end; [|discriminate].
  match type of H with context [ds_op ?a ?b ?c ?d] => destruct (ds_op a b c d) as [[u3|c3 a3] w3] end; [|discriminate].
  destruct (tg_has_deleg t0) eqn:Hd0.
  - match type of H with context [load_delegs ?a ?b ?c ?d ?e ?f ?g ?h ?i ?j ?k] =>
      destruct (load_delegs a b c d e f g h i j k) as [[rs|c4 a4] w4] eqn:E end; [|discriminate].
    apply load_delegs_spec in E.
    destruct (validate (tg_set_roles t0 rs)); [|discriminate]. inversion H; subst.
    exists t0. destruct t0 as [v e en h k roles s]. cbn [tg_set_roles tg_roles tg_dkeys] in *.
    split; [reflexivity|split; [exact E|reflexivity]].
  - destruct (validate t0); [|discriminate]. inversion H; subst. congruence.
Qed.

(* Delegations::verify_role (repaired) is the C01 specification applied to the first entry of that name *)
Lemma deleg_verify_spec dkeys roles name sigs :
  deleg_verify fixed dkeys roles name sigs = true <->
  exists h, find_hdr name roles = Some h /\ spec_accept dkeys (dh_keyids h) (dh_threshold h) sigs = true.
Proof.
  unfold deleg_verify. cbn [fixed fx_deleg_distinct]. destruct (find_hdr name roles) as [h|].
  - rewrite verify_distinct_spec. split; [intro H; exists h; auto|intros (h' & E & H); inversion E; subst; exact H].
  - split; [discriminate|intros (h & E & _); discriminate].
Qed.

(* a successful cycle's targets document carries a delegation tree loaded as specified *)
Theorem cycle_ok_tree c s rp w' :
  run_cycle fixed c s = (Ok rp, w') -> tg_has_deleg (rp_targets rp) = true ->
  exists t0, rp_targets rp = tg_set_roles t0 (tg_roles (rp_targets rp))
             /\ loaded (cy_cfg c) (cy_srv c) (rp_snap rp) (r_cs (rp_root rp))
                       (tg_dkeys t0) (tg_roles t0) (tg_roles (rp_targets rp)).
Proof.
  intros H Hd. unfold run_cycle, cycle in H.
  destruct (load_root fixed (cy_cfg c) (cy_shipped c) (cy_srv c) (cy_now c) (world0 s (cy_fault c))) as [[r|c0 a0] w1]; [|discriminate].
  destruct (load_timestamp fixed (cy_cfg c) r (cy_srv c) (cy_now c) w1) as [[ts|c0 a0] w2]; [|discriminate].
  destruct (load_snapshot fixed (cy_cfg c) r ts (cy_srv c) (cy_now c) w2) as [[sn|c0 a0] w3]; [|discriminate].
  destruct (load_targets fixed (cy_cfg c) r sn (cy_srv c) (cy_now c) w3) as [[t|c0 a0] w4] eqn:E; [|discriminate].
  inversion H; subst. cbn [rp_targets rp_snap rp_root] in *.
  destruct (load_targets_tree _ _ _ _ _ _ _ _ E Hd) as (t0 & E1 & L & _). exists t0. split; assumption.
Qed.
