(* The editing operations (Model/EdOps.v): the two target maps of a TargetsEditor refine one abstract map;
   the names of the roles an editor holds come from the program's delegate_role calls; a program whose
   final sign succeeds is loaded back by the client (composition with Proofs/EditorTreeP.v). *)
From ToughV Require Import Model.Base Model.Pct Model.Sig Model.Glob Model.Deleg Model.Client Model.EditorRT Model.EdOps.
From ToughV Require Import Proofs.BaseP Proofs.SigP Proofs.EditorTreeP.
From Coq Require Import ZifyBool ZifyN ZifyNat Lia.

(* ---------------------------------------------------------------------------------------- *)
(* TargetName equality (derived Eq: raw and resolved) is an equivalence *)
Lemma tname_eqb_spec a b : tname_eqb a b = true <-> tn_raw a = tn_raw b /\ tn_resolved a = tn_resolved b.
Proof. unfold tname_eqb. rewrite andb_true_iff, !bytes_eqb_eq. reflexivity. Qed.
Lemma tname_eqb_refl a : tname_eqb a a = true.
Proof. apply tname_eqb_spec. split; reflexivity. Qed.
Lemma tname_eqb_sym a b : tname_eqb a b = tname_eqb b a.
Proof.
  destruct (tname_eqb a b) eqn:E, (tname_eqb b a) eqn:F; try reflexivity.
  - apply tname_eqb_spec in E as [E1 E2]. assert (tname_eqb b a = true) by (apply tname_eqb_spec; split; congruence). congruence.
  - apply tname_eqb_spec in F as [F1 F2]. assert (tname_eqb a b = true) by (apply tname_eqb_spec; split; congruence). congruence.
Qed.
Lemma tname_eqb_trans_l a b c : tname_eqb a b = true -> tname_eqb a c = tname_eqb b c.
Proof.
  intro E. apply tname_eqb_spec in E as [E1 E2].
  destruct (tname_eqb a c) eqn:A, (tname_eqb b c) eqn:B; try reflexivity.
  - apply tname_eqb_spec in A as [A1 A2]. assert (tname_eqb b c = true) by (apply tname_eqb_spec; split; congruence). congruence.
  - apply tname_eqb_spec in B as [B1 B2]. assert (tname_eqb a c = true) by (apply tname_eqb_spec; split; congruence). congruence.
Qed.
Lemma tname_eqb_trans_r a b c : tname_eqb a b = true -> tname_eqb c a = tname_eqb c b.
Proof. intro E. rewrite (tname_eqb_sym c a), (tname_eqb_sym c b). apply tname_eqb_trans_l, E. Qed.

(* ---------------------------------------------------------------------------------------- *)
(* the maps *)
Lemma lookup_tput n m i l :
  lookup_target n (tput m i l) = if tname_eqb n m then Some i else lookup_target n l.
Proof.
  induction l as [|[k v] l IH]; cbn [tput lookup_target].
  - reflexivity.
  - destruct (tname_eqb m k) eqn:E; cbn [lookup_target].
    + destruct (tname_eqb n m) eqn:F; [reflexivity|].
      rewrite <- (tname_eqb_trans_r m k n E), F. reflexivity.
    + rewrite IH. destruct (tname_eqb n k) eqn:G; [|reflexivity].
      destruct (tname_eqb n m) eqn:F; [|reflexivity].
      rewrite (tname_eqb_sym n m) in F. rewrite (tname_eqb_trans_l m n k F) in E. congruence.
Qed.

Lemma lookup_tdel n m l :
  lookup_target n (tdel m l) = if tname_eqb n m then None else lookup_target n l.
Proof.
  induction l as [|[k v] l IH]; cbn [tdel filter lookup_target fst].
  - destruct (tname_eqb n m); reflexivity.
  - fold (tdel m l). destruct (tname_eqb m k) eqn:E; cbn [negb lookup_target].
    + rewrite IH. destruct (tname_eqb n m) eqn:F; [reflexivity|].
      rewrite <- (tname_eqb_trans_r m k n E), F. reflexivity.
    + rewrite IH. destruct (tname_eqb n k) eqn:G; [|reflexivity].
      destruct (tname_eqb n m) eqn:F; [|reflexivity].
      rewrite (tname_eqb_sym n m) in F. rewrite (tname_eqb_trans_l m n k F) in E. congruence.
Qed.

Lemma lookup_target_eqv a b l : tname_eqb a b = true -> lookup_target a l = lookup_target b l.
Proof.
  intro E. induction l as [|[k v] l IH]; cbn [lookup_target]; [reflexivity|].
  rewrite (tname_eqb_trans_l a b k E), IH. reflexivity.
Qed.

(* a map holds a name once *)
Fixpoint tdistinct (l : list (tname * tinfo)) : Prop :=
  match l with
  | [] => True
  | (k, _) :: r => lookup_target k r = None /\ tdistinct r
  end.

Lemma tdistinct_tput m i l : tdistinct l -> tdistinct (tput m i l).
Proof.
  induction l as [|[k v] l IH]; cbn [tput tdistinct]; [auto|]. intros [H1 H2].
  destruct (tname_eqb m k) eqn:E; cbn [tdistinct].
  - split; [|exact H2]. rewrite (lookup_target_eqv m k l E). exact H1.
  - split; [|apply IH, H2]. rewrite lookup_tput, H1. rewrite (tname_eqb_sym k m), E. reflexivity.
Qed.

Lemma tdistinct_tdel m l : tdistinct l -> tdistinct (tdel m l).
Proof.
  induction l as [|[k v] l IH]; cbn [tdel filter tdistinct fst]; [auto|]. intros [H1 H2]. fold (tdel m l).
  destruct (tname_eqb m k) eqn:E; cbn [negb tdistinct]; [apply IH, H2|].
  split; [|apply IH, H2]. rewrite lookup_tdel, H1. destruct (tname_eqb k m); reflexivity.
Qed.

Lemma tdistinct_textend added : forall base, tdistinct base -> tdistinct (textend base added).
Proof.
  induction added as [|[m i] added IH]; intros base H; cbn [textend fold_left fst snd]; [exact H|].
  apply IH, tdistinct_tput, H.
Qed.

(* HashMap::extend: the added entries win *)
Lemma lookup_textend n added : forall base, tdistinct added ->
  lookup_target n (textend base added)
  = match lookup_target n added with Some i => Some i | None => lookup_target n base end.
Proof.
  induction added as [|[m i] added IH]; intros base H; cbn [textend fold_left lookup_target fst snd].
  - reflexivity.
  - destruct H as [H1 H2]. fold (textend (tput m i base) added). rewrite (IH _ H2), lookup_tput.
    destruct (tname_eqb n m) eqn:E; [|reflexivity].
    rewrite (lookup_target_eqv n m added E), H1. reflexivity.
Qed.

(* ---------------------------------------------------------------------------------------- *)
Arguments textend : simpl never.
Arguments tput : simpl never.
Arguments tdel : simpl never.

(* the targets of the role under edit, as the document built from the editor will list them *)
Definition te_entries (te : ted) : list (tname * tinfo) := textend (te_existing te) (te_new te).
Definition te_lookup (te : ted) (n : tname) : option tinfo := lookup_target n (te_entries te).

(* the abstract map: one map, add = insert, remove = delete, clear = empty *)
Definition spec_targets_step (o : edop) (f : tname -> option tinfo) : tname -> option tinfo :=
  match o with
  | OpAdd m i => fun n => if tname_eqb n m then Some i else f n
  | OpRemove m => fun n => if tname_eqb n m then None else f n
  | OpClear => fun _ => None
  | _ => f
  end.

Definition te_ok (te : ted) : Prop := tdistinct (te_new te).

(* operations that leave the editor on the same role *)
Definition stays (o : edop) : bool :=
  match o with
  | OpSignEditor _ | OpChange _ | OpFromRepo | OpSign _ | OpUpdate _ _ _ _ _ => false
  | _ => true
  end.

Lemma step_stays r st te o st' :
  rd_te st = Some te -> te_ok te -> stays o = true -> ed_step r st o = Some st' ->
  exists te', rd_te st' = Some te' /\ te_ok te'
              /\ te_name te' = te_name te /\ te_holder te' = te_holder te
              /\ te_children te' = te_children te
              /\ rd_top st' = rd_top st
              /\ forall n, te_lookup te' n = spec_targets_step o (te_lookup te) n.
Proof.
  intros Hte Hok Hs H. destruct o; try discriminate Hs; cbn [ed_step] in H; rewrite ?Hte in H.
  - (* add *) inversion H; subst; clear H. eexists. split; [reflexivity|]. cbn.
    split; [apply tdistinct_tput, Hok|]. repeat (split; [reflexivity|]). intro x.
    unfold te_lookup, te_entries. cbn [te_existing te_new set_targets spec_targets_step].
    rewrite !lookup_textend by (try apply tdistinct_tput; exact Hok). rewrite lookup_tput.
    destruct (tname_eqb x n); reflexivity.
  - (* remove *) inversion H; subst; clear H. eexists. split; [reflexivity|]. cbn.
    split; [apply tdistinct_tdel, Hok|]. repeat (split; [reflexivity|]). intro x.
    unfold te_lookup, te_entries. cbn [te_existing te_new set_targets spec_targets_step].
    rewrite !lookup_textend by (try apply tdistinct_tdel; exact Hok). rewrite !lookup_tdel.
    destruct (tname_eqb x n); reflexivity.
  - (* clear *) inversion H; subst; clear H. eexists. split; [reflexivity|]. cbn.
    split; [exact I|]. repeat (split; [reflexivity|]). intro x. reflexivity.
  - inversion H; subst; clear H. eexists. split; [reflexivity|]. cbn. split; [exact Hok|]. repeat (split; [reflexivity|]). intro x; reflexivity.
  - inversion H; subst; clear H. eexists. split; [reflexivity|]. cbn. split; [exact Hok|]. repeat (split; [reflexivity|]). intro x; reflexivity.
  - inversion H; subst; clear H. exists te. cbn. repeat (split; [assumption || reflexivity|]). intro x; reflexivity.
  - inversion H; subst; clear H. exists te. cbn. repeat (split; [assumption || reflexivity|]). intro x; reflexivity.
  - inversion H; subst; clear H. exists te. cbn. repeat (split; [assumption || reflexivity|]). intro x; reflexivity.
  - inversion H; subst; clear H. exists te. cbn. repeat (split; [assumption || reflexivity|]). intro x; reflexivity.
  - (* delegate *) destruct (if bytes_eqb name name_targets_role then [] else keys) as [|k0 keys']; [discriminate|]. inversion H; subst; clear H.
    eexists. split; [reflexivity|]. cbn. split; [exact Hok|]. repeat (split; [reflexivity|]). intro x; reflexivity.
Qed.

(* ---------------------------------------------------------------------------------------- *)
(* the tree functions, one level at a time *)
Fixpoint find_go (fin : enode -> option enode) (name : bytes) (l : list enode) : option enode :=
  match l with
  | [] => None
  | c :: rest => if bytes_eqb (en_name c) name then Some c
                 else match fin c with
                      | Some x => Some x
                      | None => find_go fin name rest
                      end
  end.
Lemma find_role_in_eq name n : find_role_in name n = find_go (find_role_in name) name (en_children n).
Proof.
  destruct n as [h v e en dk ch sg]. cbn [find_role_in en_children].
  induction ch as [|c r IH]; [reflexivity|]. cbn [find_go]. rewrite <- IH. reflexivity.
Qed.

Fixpoint replace_go (rep : enode -> option enode) (name : bytes) (d : enode) (l : list enode) : option (list enode) :=
  match l with
  | [] => None
  | c :: rest =>
      if bytes_eqb (en_name c) name then Some (set_content c d :: rest)
      else match rep c with
           | Some c' => Some (c' :: rest)
           | None => match replace_go rep name d rest with
                     | Some rest' => Some (c :: rest')
                     | None => None
                     end
           end
  end.
Lemma replace_role_eq name d n :
  replace_role name d n
  = match replace_go (replace_role name d) name d (en_children n) with
    | Some ch' => Some (ENode (en_hdr n) (en_version n) (en_expires n) (en_entries n) (en_dkeys n) ch' (en_signers n))
    | None => None
    end.
Proof.
  destruct n as [h v e en dk ch sg]. cbn [replace_role en_children en_hdr en_version en_expires en_entries en_dkeys en_signers].
  match goal with |- match ?a with _ => _ end = match ?b with _ => _ end => assert (a = b) as ->; [|reflexivity] end.
  induction ch as [|c r IH]; [reflexivity|]. cbn [replace_go]. rewrite <- IH. reflexivity.
Qed.

(* a role found in a tree is one of its roles, and so are the roles below it *)
Lemma flat_trans p : forall q, In q (en_flat p) -> incl (en_flat q) (en_flat p).
Proof.
  induction p as [h v e en dk ch sg IH] using enode_ind'. intros q Hq.
  rewrite en_flat_eq in Hq. destruct Hq as [Hq|Hq]; [subst q; apply incl_refl|].
  cbn [en_children] in Hq. apply in_flat_map in Hq as (c & Hc & Hq).
  rewrite Forall_forall in IH. intros x Hx. rewrite en_flat_eq. right. cbn [en_children].
  apply in_flat_map. exists c. split; [exact Hc|]. exact (IH c Hc q Hq x Hx).
Qed.

Lemma find_role_in_in top : forall name n, find_role_in name top = Some n -> In n (all_roles (en_children top)).
Proof.
  induction top as [h v e en dk ch sg IH] using enode_ind'. intros name n H.
  rewrite find_role_in_eq in H. cbn [en_children] in *. rewrite Forall_forall in IH.
  induction ch as [|c r IHr]; [discriminate|]. cbn [find_go] in H. cbn [all_roles flat_map].
  destruct (bytes_eqb (en_name c) name).
  - inversion H; subst. apply in_or_app. left. apply in_flat_self.
  - destruct (find_role_in name c) as [x|] eqn:F.
    + inversion H; subst. apply in_or_app. left. rewrite en_flat_eq. right. apply (IH c (or_introl eq_refl) name n F).
    + apply in_or_app. right. apply IHr; [|exact H]. intros y Hy. apply IH. right. exact Hy.
Qed.

Lemma find_role_in_name top : forall name n, find_role_in name top = Some n -> en_name n = name.
Proof.
  induction top as [h v e en dk ch sg IH] using enode_ind'. intros name n H.
  rewrite find_role_in_eq in H. cbn [en_children] in *. rewrite Forall_forall in IH.
  induction ch as [|c r IHr]; [discriminate|]. cbn [find_go] in H.
  destruct (bytes_eqb (en_name c) name) eqn:E.
  - inversion H; subst. apply bytes_eqb_eq, E.
  - destruct (find_role_in name c) as [x|] eqn:F.
    + inversion H; subst. apply (IH c (or_introl eq_refl) name n F).
    + apply IHr; [|exact H]. intros y Hy. apply IH. right. exact Hy.
Qed.

Lemma sub_names n ch : In n (all_roles ch) -> incl (names (all_roles (en_children n))) (names (all_roles ch)).
Proof.
  intros Hn x Hx. unfold names in *. apply in_map_iff in Hx as (y & Ey & Hy). apply in_map_iff. exists y. split; [exact Ey|].
  apply in_flat_map in Hn as (c & Hc & Hn). apply in_flat_map. exists c. split; [exact Hc|].
  apply (flat_trans c n Hn). rewrite en_flat_eq. right. exact Hy.
Qed.

(* replacing a role's document: the names of the new tree come from the old tree and from the document *)
Lemma replace_role_names d top : forall name top', replace_role name d top = Some top' ->
  en_name top' = en_name top
  /\ incl (names (all_roles (en_children top')))
          (names (all_roles (en_children top)) ++ names (all_roles (en_children d))).
Proof.
  induction top as [h v e en dk ch sg IH] using enode_ind'. intros name top' H.
  rewrite replace_role_eq in H. cbn [en_children en_hdr en_version en_expires en_entries en_dkeys en_signers] in *.
  destruct (replace_go (replace_role name d) name d ch) as [ch'|] eqn:G; [|discriminate]. inversion H; subst; clear H.
  split; [reflexivity|]. cbn [en_children]. rewrite Forall_forall in IH.
  revert ch' G. induction ch as [|c r IHr]; intros ch' G; [discriminate|]. cbn [replace_go] in G.
  destruct (bytes_eqb (en_name c) name) eqn:E.
  - inversion G; subst; clear G. rewrite !names_all_roles_cons, !names_flat.
    unfold set_content at 1. cbn [en_name en_hdr]. fold (en_name c).
    intros x [Hx|Hx]; [left; exact Hx|]. apply in_app_or in Hx as [Hx|Hx].
    + unfold set_content in Hx. cbn [en_children] in Hx. apply in_or_app. right. exact Hx.
    + apply in_or_app. left. right. apply in_or_app. right. exact Hx.
  - destruct (replace_role name d c) as [c'|] eqn:F.
    + inversion G; subst; clear G. destruct (IH c (or_introl eq_refl) name c' F) as [Hn Hi].
      rewrite !names_all_roles_cons, !names_flat, Hn.
      intros x [Hx|Hx]; [left; exact Hx|]. apply in_app_or in Hx as [Hx|Hx].
      * apply Hi in Hx. apply in_app_or in Hx as [Hx|Hx]; apply in_or_app; [left|right; exact Hx].
        right. apply in_or_app. left. exact Hx.
      * apply in_or_app. left. right. apply in_or_app. right. exact Hx.
    + destruct (replace_go (replace_role name d) name d r) as [r'|] eqn:G2; [|discriminate]. inversion G; subst; clear G.
      rewrite !names_all_roles_cons. intros x Hx. apply in_app_or in Hx as [Hx|Hx].
      * apply in_or_app. left. apply in_or_app. left. exact Hx.
      * assert (In x (names (all_roles r) ++ names (all_roles (en_children d)))) as Hy.
        { apply (IHr (fun y Hy => IH y (or_intror Hy)) r' eq_refl). exact Hx. }
        apply in_app_or in Hy as [Hy|Hy]; apply in_or_app; [left|right; exact Hy]. apply in_or_app. right. exact Hy.
Qed.

(* ---------------------------------------------------------------------------------------- *)
(* every role an editor holds was created by a delegate_role call of the program *)
Definition op_names (o : edop) : list bytes :=
  match o with OpDelegate name _ _ _ _ _ => [name] | _ => [] end.
Definition ops_names (ops : list edop) : list bytes := flat_map op_names ops.

Definition top_names (st : red) : list bytes :=
  match rd_top st with Some t => names (all_roles (en_children t)) | None => [] end.
Definition te_names (st : red) : list bytes :=
  match rd_te st with Some te => names (all_roles (te_children te ++ te_new_roles te)) | None => [] end.
Definition st_names (st : red) : list bytes := top_names st ++ te_names st.

Lemma sign_editor_names r st keys st' : sign_editor r st keys = Some st' -> incl (st_names st') (st_names st).
Proof.
  unfold sign_editor. destruct (rd_te st) as [te|] eqn:Hte; [|intro H; inversion H; subst; apply incl_refl].
  unfold ted_build. destruct (te_version te) as [v|]; [|discriminate]. destruct (te_expires te) as [e|]; [|discriminate].
  destruct (sign_as r (te_holder te) (te_name te) keys) as [signers|]; [|discriminate].
  destruct (bytes_eqb (te_name te) name_targets_role).
  - intro H. inversion H; subst; clear H. unfold st_names, top_names, te_names. cbn [rd_top rd_te en_children]. rewrite Hte, app_nil_r.
    apply incl_appr, incl_refl.
  - destruct (rd_top st) as [top|] eqn:Htop; [|discriminate].
    destruct (replace_role _ _ top) as [top'|] eqn:R; [|discriminate]. intro H. inversion H; subst; clear H.
    unfold st_names, top_names, te_names. cbn [rd_top rd_te]. rewrite Hte, Htop, app_nil_r.
    apply replace_role_names in R as [_ R]. cbn [en_children] in R. exact R.
Qed.

Lemma attach_loaded_names cur : forall l l', attach_loaded cur l = Some l' ->
  incl (names (all_roles l')) (names l ++ names (all_roles (en_children cur))).
Proof.
  induction l as [|c rest IH]; intros l' H; cbn [attach_loaded] in H.
  - inversion H; subst. intros x [].
  - destruct (find_role_in (en_name c) cur) as [x|] eqn:F; [|discriminate].
    destruct (attach_loaded cur rest) as [rest'|]; [|discriminate]. inversion H; subst; clear H.
    rewrite names_all_roles_cons, names_flat. cbn [names map]. unfold set_content at 1. cbn [en_name en_hdr]. fold (en_name c).
    intros y [Hy|Hy]; [left; exact Hy|]. apply in_app_or in Hy as [Hy|Hy].
    + unfold set_content in Hy. cbn [en_children] in Hy. right. apply in_or_app. right.
      apply (sub_names x _ (find_role_in_in cur _ x F)). exact Hy.
    + apply (IH rest' eq_refl) in Hy. apply in_app_or in Hy as [Hy|Hy]; [right; apply in_or_app; left; exact Hy|].
      right. apply in_or_app. right. exact Hy.
Qed.

(* names of the roles an incoming document delegates to are names of roles the owner holds *)
Lemma incoming_names r top name adds version expires keys inc :
  incoming r top name adds version expires keys = Some inc ->
  incl (names (all_roles (en_children inc))) (names (all_roles (en_children top))).
Proof.
  unfold incoming. destruct (parent_in name top) as [[dk sibs]|]; [|discriminate].
  destruct (find_role_in name top) as [cur|] eqn:F; [|discriminate].
  destruct (sign_as r (HDeleg dk sibs) name keys); [|discriminate]. intro H. inversion H; subst; clear H. cbn [en_children].
  apply sub_names, (find_role_in_in top name cur F).
Qed.

Lemma update_delegated_names st name inc st' : update_delegated st name inc = Some st' ->
  incl (st_names st') (st_names st ++ names (all_roles (en_children inc))).
Proof.
  unfold update_delegated. destruct (rd_top st) as [top|] eqn:Htop; [|discriminate].
  destruct (parent_in name top) as [[dk sibs]|]; [|discriminate].
  destruct (find_role_in name top) as [cur|] eqn:F; [|discriminate].
  destruct (_ && _); [|discriminate]. destruct (attach_loaded cur (en_children inc)) as [ch'|] eqn:A; [|discriminate].
  destruct (replace_role name _ top) as [top'|] eqn:R; [|discriminate]. intro H. inversion H; subst; clear H.
  unfold st_names, top_names, te_names. cbn [rd_top rd_te]. rewrite Htop, app_nil_r.
  apply replace_role_names in R as [_ R]. cbn [en_children] in R.
  intros x Hx. apply R in Hx. apply in_app_or in Hx as [Hx|Hx]; [apply in_or_app; left; apply in_or_app; left; exact Hx|].
  apply (attach_loaded_names cur _ _ A) in Hx. apply in_app_or in Hx as [Hx|Hx].
  - apply in_or_app. right. unfold names in *. apply in_map_iff in Hx as (y & Ey & Hy). apply in_map_iff. exists y. split; [exact Ey|].
    apply in_all_roles, Hy.
  - apply in_or_app. left. apply in_or_app. left. apply (sub_names cur _ (find_role_in_in top name cur F)). exact Hx.
Qed.

Lemma step_names r st o st' : ed_step r st o = Some st' -> incl (st_names st') (st_names st ++ op_names o).
Proof.
  destruct o; cbn [ed_step op_names]; rewrite ?app_nil_r.
  1-5: destruct (rd_te st) as [te|] eqn:Hte; [|discriminate]; intro H; inversion H; subst; clear H;
       unfold st_names, top_names, te_names; cbn; rewrite Hte; apply incl_refl.
  1-4: intro H; inversion H; subst; clear H; unfold st_names, top_names, te_names; cbn; apply incl_refl.
  - (* delegate *) destruct (if bytes_eqb name name_targets_role then [] else keys) as [|k0 keys']; [discriminate|]. destruct (rd_te st) as [te|] eqn:Hte; [|discriminate].
    intro H. inversion H; subst; clear H. unfold st_names, top_names, te_names. cbn [rd_top rd_te with_te te_children te_new_roles].
    rewrite Hte, app_assoc, names_all_roles_app. cbn [all_roles flat_map en_flat en_children names map app en_name en_hdr dh_name].
    rewrite app_assoc. apply incl_refl.
  - apply sign_editor_names.
  - (* change *) destruct (rd_te st) eqn:Hte; [discriminate|]. destruct (rd_top st) as [top|] eqn:Htop; [|discriminate].
    destruct (bytes_eqb role name_targets_role).
    + intro H. inversion H; subst; clear H. unfold st_names, top_names, te_names. cbn. rewrite Hte, Htop, !app_nil_r.
      apply incl_app; apply incl_refl.
    + destruct (parent_in role top) as [[dk sibs]|]; [|discriminate]. destruct (find_role_in role top) as [n|] eqn:F; [|discriminate].
      intro H. inversion H; subst; clear H. unfold st_names, top_names, te_names. cbn. rewrite Hte, Htop, !app_nil_r.
      apply incl_app; [apply incl_refl|]. apply sub_names, (find_role_in_in top role n F).
  - (* from_repo *) destruct (rd_top st) as [top|] eqn:Htop; [|discriminate].
    intro H. inversion H; subst; clear H. unfold st_names, top_names, te_names. cbn. rewrite Htop, !app_nil_r.
    apply incl_app; apply incl_appl, incl_refl.
  - (* sign *) destruct (ed_at_sign st keys); [|discriminate]. destruct (sign_accepts r s); [|discriminate]. apply sign_editor_names.
  - (* update *) destruct (bytes_eqb name name_targets_role); [discriminate|].
    destruct (rd_top st) as [top|] eqn:Htop; [|discriminate].
    destruct (incoming r top name adds version expires keys) as [inc|] eqn:I; [|discriminate].
    intro H. apply (update_delegated_names st name inc st') in H.
    + intros x Hx. apply H in Hx. apply in_app_or in Hx as [Hx|Hx]; [exact Hx|].
      unfold st_names, top_names. rewrite Htop. apply in_or_app. left.
      apply (incoming_names r top name adds version expires keys inc I). exact Hx.
Qed.

Lemma run_names r : forall ops st, incl (st_names (fst (ed_run r st ops))) (st_names st ++ ops_names ops).
Proof.
  induction ops as [|o ops IH]; intro st; cbn [ed_run ops_names flat_map]; [rewrite app_nil_r; apply incl_refl|].
  destruct (ed_step r st o) as [st'|] eqn:S.
  - specialize (IH st'). destruct (ed_run r st' ops) as [s out]. cbn [fst] in *.
    intros x Hx. apply IH in Hx. apply in_app_or in Hx as [Hx|Hx].
    + apply (step_names r st o st' S) in Hx. rewrite app_assoc. apply in_or_app. left. exact Hx.
    + apply in_or_app. right. apply in_or_app. right. exact Hx.
  - specialize (IH st). destruct (ed_run r st ops) as [s out]. cbn [fst] in *.
    intros x Hx. apply IH in Hx. apply in_app_or in Hx as [Hx|Hx]; apply in_or_app; [left; exact Hx|right].
    apply in_or_app. right. exact Hx.
Qed.

Lemma at_sign_names st keys ss : ed_at_sign st keys = Some ss ->
  incl (names (all_roles (ss_children ss))) (st_names st).
Proof.
  unfold ed_at_sign. destruct (rd_te st) as [te|] eqn:Hte; [|discriminate].
  destruct (rd_sv st), (rd_sexp st), (rd_tsv st), (rd_tsexp st); try discriminate.
  destruct (bytes_eqb (te_name te) name_targets_role); [|discriminate].
  destruct (te_version te), (te_expires te); try discriminate. intro H. inversion H; subst; clear H.
  cbn [ss_children]. unfold st_names, te_names. rewrite Hte. apply incl_appr, incl_refl.
Qed.

Lemma at_sign_keys st keys ss : ed_at_sign st keys = Some ss -> ss_keys ss = dedup keys.
Proof.
  unfold ed_at_sign. destruct (rd_te st) as [te|]; [|discriminate].
  destruct (rd_sv st), (rd_sexp st), (rd_tsv st), (rd_tsexp st); try discriminate.
  destruct (bytes_eqb (te_name te) name_targets_role); [|discriminate].
  destruct (te_version te), (te_expires te); try discriminate. intro H. inversion H; reflexivity.
Qed.

(* ---------------------------------------------------------------------------------------- *)
(* editing program, sign, write, client: what a program's final sign writes, the client loads *)
Theorem program_roundtrip (len_of dig_of : content -> N) (r : root) (ops : list edop) (keys : list N)
        (cfg : config) (now : Z) tg sn ts srv ss :
  ed_at_sign (fst (ed_run r red_new ops)) keys = Some ss ->
  ed_program_sign len_of dig_of r ops keys = Some (tg, sn, ts, srv) ->
  root_verify r 0 (r_sigs r) = true ->
  (forall k, In k keys -> memN k (r_keys r) = true) ->
  Forall small (ops_names ops) ->
  (r_cs r = false -> ~ In (next_root_role r) (ops_names ops)) ->
  r_version r < update_limit fixed (r_version r) (c_max_root_updates cfg) ->
  (tree_depth (ss_children ss) <= c_fuel cfg)%nat ->
  len_of (CTs ts) <= c_max_timestamp_size cfg ->
  (now <= r_expires r)%Z -> (now <= e_tsexp (ss_edit ss))%Z -> (now <= e_sexp (ss_edit ss))%Z -> (now <= e_texp (ss_edit ss))%Z ->
  exists w,
    run_cycle fixed {| cy_cfg := cfg; cy_shipped := CRoot r; cy_srv := srv; cy_now := now; cy_fault := None |} store0
    = (Ok {| rp_root := r; rp_ts := ts; rp_snap := sn; rp_targets := tg |}, w).
Proof.
  intros Hss Hsign Hroot Hkeys Hsmall Hnext Hlim Hfuel Hts He1 He2 He3 He4.
  unfold ed_program_sign in Hsign. rewrite Hss in Hsign.
  assert (incl (names (all_roles (ss_children ss))) (ops_names ops)) as Hincl.
  { intros x Hx. apply (at_sign_names _ _ _ Hss) in Hx. apply run_names in Hx. exact Hx. }
  pose proof (at_sign_keys _ _ _ Hss) as Hk.
  eapply (editor_client_roundtrip_tree len_of dig_of r (ss_edit ss) (ss_dkeys ss) (ss_children ss) (ss_keys ss)); try eassumption.
  - rewrite Hk. apply dedup_NoDup.
  - intros k Hk'. rewrite Hk in Hk'. apply Hkeys. apply dedup_In. exact Hk'.
  - eapply ed_sign_tree_names. exact Hsign.
  - apply Forall_forall. intros n Hn. rewrite Forall_forall in Hsmall. apply Hsmall, Hincl, in_names, Hn.
  - intros Hcs Hin. apply (Hnext Hcs). apply Hincl. exact Hin.
Qed.

(* ---------------------------------------------------------------------------------------- *)
(* the map invariant holds in every state a program reaches *)
Definition st_ok (st : red) : Prop := match rd_te st with Some te => te_ok te | None => True end.

Lemma sign_editor_ok r st keys st' : sign_editor r st keys = Some st' -> st_ok st -> st_ok st'.
Proof.
  unfold sign_editor. destruct (rd_te st) as [te|] eqn:Hte; [|intros H Hok; inversion H; subst; exact Hok].
  destruct (ted_build r te keys); [|discriminate]. destruct (bytes_eqb _ _).
  - intros H _; inversion H; subst. exact I.
  - destruct (rd_top st); [|discriminate]. destruct (replace_role _ _ _); [|discriminate]. intros H _; inversion H; subst. exact I.
Qed.

Lemma step_ok r st o st' : ed_step r st o = Some st' -> st_ok st -> st_ok st'.
Proof.
  intros H Hok. destruct (stays o) eqn:S.
  - unfold st_ok in *. destruct (rd_te st) as [te|] eqn:Hte.
    + destruct (step_stays r st te o st' Hte Hok S H) as (te' & -> & Hok' & _). exact Hok'.
    + destruct o; try discriminate S; cbn [ed_step] in H; rewrite ?Hte in H; try discriminate;
        try (inversion H; subst; cbn; exact I).
      repeat match type of H with context [match ?x with _ => _ end] => destruct x end; discriminate.
  - destruct o; try discriminate S; cbn [ed_step] in H.
    + eapply sign_editor_ok; eassumption.
    + destruct (rd_te st); [discriminate|]. destruct (rd_top st) as [top|]; [|discriminate].
      destruct (bytes_eqb role name_targets_role); [inversion H; subst; exact I|].
      destruct (parent_in role top) as [[dk sibs]|]; [|discriminate]. destruct (find_role_in role top); [|discriminate].
      inversion H; subst. exact I.
    + destruct (rd_top st); [|discriminate]. inversion H; subst. exact I.
    + destruct (ed_at_sign st keys); [|discriminate]. destruct (sign_accepts r s); [|discriminate].
      eapply sign_editor_ok; eassumption.
    + destruct (bytes_eqb name name_targets_role); [discriminate|]. destruct (rd_top st) as [top|]; [|discriminate].
      destruct (incoming r top name adds version expires keys) as [inc|]; [|discriminate].
      unfold update_delegated in H. destruct (rd_top st) as [top2|]; [|discriminate].
      destruct (parent_in name top2) as [[dk sibs]|]; [|discriminate]. destruct (find_role_in name top2); [|discriminate].
      destruct (_ && _); [|discriminate]. destruct (attach_loaded _ _); [|discriminate].
      destruct (replace_role _ _ _); [|discriminate]. inversion H; subst. exact I.
Qed.

Lemma run_ok r : forall ops st, st_ok st -> st_ok (fst (ed_run r st ops)).
Proof.
  induction ops as [|o ops IH]; intros st H; cbn [ed_run]; [exact H|].
  destruct (ed_step r st o) as [st'|] eqn:S.
  - specialize (IH st' (step_ok r st o st' S H)). destruct (ed_run r st' ops). exact IH.
  - specialize (IH st H). destruct (ed_run r st ops). exact IH.
Qed.

Lemma run_app r : forall a b st, fst (ed_run r st (a ++ b)) = fst (ed_run r (fst (ed_run r st a)) b).
Proof.
  induction a as [|o a IH]; intros b st; cbn [app ed_run fst]; [reflexivity|].
  destruct (ed_step r st o) as [st'|].
  - specialize (IH b st'). destruct (ed_run r st' (a ++ b)), (ed_run r st' a). exact IH.
  - specialize (IH b st). destruct (ed_run r st (a ++ b)), (ed_run r st a). exact IH.
Qed.

(* a stretch of operations on one role: its targets are the abstract map's *)
Definition spec_targets (ops : list edop) (f : tname -> option tinfo) : tname -> option tinfo :=
  fold_left (fun g o => spec_targets_step o g) ops f.

Lemma spec_step_ext o f g : (forall n, f n = g n) -> forall n, spec_targets_step o f n = spec_targets_step o g n.
Proof. intros H n. destruct o; cbn [spec_targets_step]; try apply H; try reflexivity; destruct (tname_eqb n n0); auto. Qed.
Lemma spec_targets_ext ops : forall f g, (forall n, f n = g n) -> forall n, spec_targets ops f n = spec_targets ops g n.
Proof.
  induction ops as [|o ops IH]; intros f g H n; cbn [spec_targets fold_left]; [apply H|].
  apply IH. apply spec_step_ext, H.
Qed.

Lemma refused_stays r st te o : rd_te st = Some te -> stays o = true -> ed_step r st o = None ->
  forall f n, spec_targets_step o f n = f n.
Proof.
  intros Hte S H f n. destruct o; try discriminate S; cbn [ed_step] in H; rewrite ?Hte in H; try discriminate. reflexivity.
Qed.

Lemma run_stays r : forall ops st te, rd_te st = Some te -> te_ok te -> forallb stays ops = true ->
  exists te', rd_te (fst (ed_run r st ops)) = Some te' /\ te_ok te' /\ te_name te' = te_name te
              /\ te_holder te' = te_holder te /\ rd_top (fst (ed_run r st ops)) = rd_top st
              /\ te_children te' = te_children te
              /\ forall n, te_lookup te' n = spec_targets ops (te_lookup te) n.
Proof.
  induction ops as [|o ops IH]; intros st te Hte Hok Hs; cbn [ed_run fst].
  - exists te. repeat (split; [assumption || reflexivity|]). intro n. reflexivity.
  - cbn [forallb] in Hs. apply andb_true_iff in Hs as [So Hs]. destruct (ed_step r st o) as [st'|] eqn:S.
    + destruct (step_stays r st te o st' Hte Hok So S) as (te1 & Hte1 & Hok1 & Hn1 & Hh1 & Hc1 & Htop1 & Hl1).
      destruct (IH st' te1 Hte1 Hok1 Hs) as (te' & H1 & H2 & H3 & H4 & H5 & Hc & H6).
      destruct (ed_run r st' ops) as [s out]. cbn [fst] in *. exists te'.
      split; [exact H1|]. split; [exact H2|]. split; [congruence|]. split; [congruence|]. split; [congruence|]. split; [congruence|].
      intro n. rewrite H6. cbn [spec_targets fold_left]. apply spec_targets_ext. exact Hl1.
    + destruct (IH st te Hte Hok Hs) as (te' & H1 & H2 & H3 & H4 & H5 & Hc & H6).
      destruct (ed_run r st ops) as [s out]. cbn [fst] in *. exists te'. repeat (split; [assumption|]).
      intro n. rewrite H6. cbn [spec_targets fold_left]. apply spec_targets_ext. intro x. symmetry.
      apply (refused_stays r st te o Hte So S).
Qed.

(* what sign hands on is what the editor held *)
Lemma sign_tree_entries len_of dig_of r e dkeys ch keys tg sn ts srv :
  ed_sign_tree len_of dig_of r e dkeys ch keys = Some (tg, sn, ts, srv) ->
  tg_entries tg = e_entries e /\ tg_version tg = e_tv e /\ tg_expires tg = e_texp e
  /\ sn_version sn = e_sv e /\ ts_version ts = e_tsv e.
Proof.
  unfold ed_sign_tree, ed_sign_tree_gen.
  destruct (signed_role r 2 keys), (signed_role r 1 keys), (signed_role r 3 keys); try discriminate.
  destruct (_ && _); [|discriminate]. destruct (validate _); [|discriminate].
  intro H. inversion H; subst. repeat split.
Qed.

(* the targets a client sees in the top-level role are those of the abstract map: [pre] is any program that
   leaves the editor on the top-level role (the empty program, or one ending in change_delegated_targets
   "targets" or from_repo), [seg] the operations made on it since *)
Theorem program_targets_seen (len_of dig_of : content -> N) r pre seg keys te0 tg sn ts srv :
  rd_te (fst (ed_run r red_new pre)) = Some te0 ->
  forallb stays seg = true ->
  ed_program_sign len_of dig_of r (pre ++ seg) keys = Some (tg, sn, ts, srv) ->
  forall n, lookup_target n (tg_entries tg) = spec_targets seg (te_lookup te0) n.
Proof.
  intros Hte Hs Hsign n. unfold ed_program_sign in Hsign. rewrite run_app in Hsign.
  assert (te_ok te0) as Hok0.
  { pose proof (run_ok r pre red_new I) as H. unfold st_ok in H. rewrite Hte in H. exact H. }
  destruct (run_stays r seg _ te0 Hte Hok0 Hs) as (te' & H1 & H2 & H3 & H4 & H5 & _ & H6).
  unfold ed_at_sign in Hsign. rewrite H1 in Hsign.
  set (st' := fst (ed_run r (fst (ed_run r red_new pre)) seg)) in *.
  destruct (rd_sv st'); [|discriminate]. destruct (rd_sexp st'); [|discriminate].
  destruct (rd_tsv st'); [|discriminate]. destruct (rd_tsexp st'); [|discriminate].
  destruct (bytes_eqb (te_name te') name_targets_role); [|discriminate].
  destruct (te_version te'); [|discriminate]. destruct (te_expires te'); [|discriminate].
  apply sign_tree_entries in Hsign as (He & _). cbn [ss_edit e_entries] in He. rewrite He. apply H6.
Qed.

(* from a new editor: nothing but what the program added and did not remove *)
Corollary new_program_targets_seen (len_of dig_of : content -> N) r seg keys tg sn ts srv :
  forallb stays seg = true ->
  ed_program_sign len_of dig_of r seg keys = Some (tg, sn, ts, srv) ->
  forall n, lookup_target n (tg_entries tg) = spec_targets seg (fun _ => None) n.
Proof.
  intros Hs Hsign n. rewrite (program_targets_seen len_of dig_of r [] seg keys ted_new_top tg sn ts srv eq_refl Hs Hsign).
  apply spec_targets_ext. intro x. reflexivity.
Qed.

(* ---------------------------------------------------------------------------------------- *)
(* non-vacuity: a program that builds targets -> A -> C and targets -> B, with additions, a removal and an
   update, ends in the tree of EditorTreeP.tree_example (up to the targets removed), signs, and the client
   loads it; the same program with one signature less for B is refused by sign *)
Definition p_hdr_paths (p : bytes) : pathset := Paths [p].
Definition x_prog (b_keys : list N) : list edop :=
  [OpAdd (x_tn [116]) (x_ti 4 40); OpAdd (x_tn [117]) (x_ti 6 60); OpRemove (x_tn [117]); OpAdd (x_tn [116]) (x_ti 5 50);
   OpDelegate [65] [4; 5; 6] (p_hdr_paths [97; 47; 42]) 2 500 1;
   OpDelegate [66] [7; 8; 9] (p_hdr_paths [98; 47; 42]) 2 400 2;
   OpTargetsVersion 2; OpTargetsExpires 900; OpSignEditor [2; 20];
   OpChange [65]; OpAdd (x_tn [97; 47; 120]) (x_ti 1 10);
   OpDelegate [67] [10; 11; 12] (p_hdr_paths [97; 47; 99; 47; 42]) 2 300 1;
   OpTargetsVersion 3; OpTargetsExpires 500; OpSignEditor [4; 6; 2];
   OpChange [66]; OpAdd (x_tn [98; 47; 122]) (x_ti 2 20); OpTargetsVersion 2; OpTargetsExpires 400; OpSignEditor b_keys;
   OpChange name_targets_role;
   OpTargetsVersion 7; OpTargetsExpires 900; OpSnapshotVersion 8; OpSnapshotExpires 800;
   OpTimestampVersion 9; OpTimestampExpires 700].

Lemma program_example : forall cs,
  exists tg sn ts srv w,
    ed_program_sign x_len x_len (x_root cs) (x_prog [9; 8; 2]) [1; 2; 3; 20] = Some (tg, sn, ts, srv)
    /\ run_cycle fixed (x_cyc cs srv) store0 = (Ok {| rp_root := x_root cs; rp_ts := ts; rp_snap := sn; rp_targets := tg |}, w)
    /\ map (fun ni => (tn_raw (fst ni), ti_len (snd ni))) (targets_iter tg) = [([116], 5); ([97; 47; 120], 1); ([98; 47; 122], 2)]
    /\ snd (ed_run (x_root cs) red_new (x_prog [9; 8; 2])) = repeat true 27
    /\ ed_program_sign x_len x_len (x_root cs) (x_prog [9; 2]) [1; 2; 3; 20] = None.
Proof.
  intro cs.
  destruct (ed_program_sign x_len x_len (x_root cs) (x_prog [9; 8; 2]) [1; 2; 3; 20])
    as [[[[tg sn] ts] srv]|] eqn:E; [|destruct cs; vm_compute in E; discriminate].
  destruct (ed_at_sign (fst (ed_run (x_root cs) red_new (x_prog [9; 8; 2]))) [1; 2; 3; 20]) as [ss|] eqn:Ess;
    [|destruct cs; vm_compute in Ess; discriminate].
  destruct (program_roundtrip x_len x_len (x_root cs) (x_prog [9; 8; 2]) [1; 2; 3; 20] x_cfg 100 tg sn ts srv ss Ess E) as [w Hw].
  - reflexivity.
  - intros k Hk. cbn in Hk. intuition (subst; reflexivity).
  - small_names.
  - destruct cs; [discriminate|]. intros _. cbn. intuition discriminate.
  - reflexivity.
  - destruct cs; vm_compute in Ess; injection Ess as <-; vm_compute; lia.
  - destruct cs; vm_compute in E; injection E as <- <- <- <-; vm_compute; discriminate.
  - vm_compute; discriminate.
  - destruct cs; vm_compute in Ess; injection Ess as <-; vm_compute; discriminate.
  - destruct cs; vm_compute in Ess; injection Ess as <-; vm_compute; discriminate.
  - destruct cs; vm_compute in Ess; injection Ess as <-; vm_compute; discriminate.
  - exists tg, sn, ts, srv, w. split; [reflexivity|]. split; [exact Hw|].
    destruct cs; vm_compute in E; injection E as <- <- <- <-; repeat split; vm_compute; reflexivity.
Qed.

(* ---------------------------------------------------------------------------------------- *)
(* C17 on the model of the editing operations: an update - from_repo, new versions and expirations, targets
   added or removed, sign - leaves the delegation structure, every delegated role's document and its
   signatures as they were, and changes the top-level targets by exactly the additions and removals made *)
Definition plain (o : edop) : bool :=
  match o with
  | OpAdd _ _ | OpRemove _ | OpClear | OpTargetsVersion _ | OpTargetsExpires _
  | OpSnapshotVersion _ | OpSnapshotExpires _ | OpTimestampVersion _ | OpTimestampExpires _ => true
  | _ => false
  end.
Lemma plain_stays o : plain o = true -> stays o = true.
Proof. destruct o; cbn; congruence. Qed.

Lemma step_plain r st te o st' :
  rd_te st = Some te -> plain o = true -> ed_step r st o = Some st' ->
  exists te', rd_te st' = Some te' /\ te_dkeys te' = te_dkeys te /\ te_new_roles te' = te_new_roles te.
Proof.
  intros Hte Hp H. destruct o; try discriminate Hp; cbn [ed_step] in H; rewrite ?Hte in H; inversion H; subst; clear H;
    eexists; (split; [reflexivity|]); cbn; try rewrite Hte; split; reflexivity.
Qed.

Lemma run_plain r : forall ops st te, rd_te st = Some te -> forallb plain ops = true ->
  exists te', rd_te (fst (ed_run r st ops)) = Some te' /\ te_dkeys te' = te_dkeys te /\ te_new_roles te' = te_new_roles te.
Proof.
  induction ops as [|o ops IH]; intros st te Hte Hp; cbn [ed_run fst].
  - exists te. repeat split; assumption.
  - cbn [forallb] in Hp. apply andb_true_iff in Hp as [Po Hp]. destruct (ed_step r st o) as [st'|] eqn:S.
    + destruct (step_plain r st te o st' Hte Po S) as (te1 & Hte1 & Hd1 & Hn1).
      destruct (IH st' te1 Hte1 Hp) as (te' & H1 & H2 & H3). destruct (ed_run r st' ops) as [s out]. cbn [fst] in *.
      exists te'. split; [exact H1|]. split; congruence.
    + destruct (IH st te Hte Hp) as (te' & H1 & H2 & H3). destruct (ed_run r st ops) as [s out]. cbn [fst] in *.
      exists te'. repeat split; assumption.
Qed.

Lemma forallb_plain_stays ops : forallb plain ops = true -> forallb stays ops = true.
Proof.
  induction ops as [|o ops IH]; cbn [forallb]; [reflexivity|]. intro H. apply andb_true_iff in H as [H1 H2].
  rewrite (plain_stays o H1), (IH H2). reflexivity.
Qed.

Theorem update_preserves_tree r st top st1 seg keys ss :
  rd_top st = Some top ->
  ed_step r st OpFromRepo = Some st1 ->
  forallb plain seg = true ->
  ed_at_sign (fst (ed_run r st1 seg)) keys = Some ss ->
  ss_children ss = en_children top
  /\ ss_dkeys ss = en_dkeys top
  /\ forall n, lookup_target n (e_entries (ss_edit ss)) = spec_targets seg (fun x => lookup_target x (en_entries top)) n.
Proof.
  intros Htop H1 Hp Hss. cbn [ed_step] in H1. rewrite Htop in H1. inversion H1; subst st1; clear H1.
  set (te0 := ted_from name_targets_role HRoot top) in *.
  set (st1 := {| rd_sv := None; rd_sexp := None; rd_tsv := None; rd_tsexp := None; rd_te := Some te0; rd_top := Some top |}) in *.
  destruct (run_plain r seg st1 te0 eq_refl Hp) as (te' & G1 & G2 & G3).
  destruct (run_stays r seg st1 te0 eq_refl I (forallb_plain_stays seg Hp)) as (te2 & K1 & K2 & K3 & K4 & K5 & Kc & K6).
  rewrite G1 in K1. inversion K1; subst te2; clear K1.
  unfold ed_at_sign in Hss. rewrite G1 in Hss.
  set (stf := fst (ed_run r st1 seg)) in *.
  destruct (rd_sv stf); [|discriminate]. destruct (rd_sexp stf); [|discriminate].
  destruct (rd_tsv stf); [|discriminate]. destruct (rd_tsexp stf); [|discriminate].
  destruct (bytes_eqb (te_name te') name_targets_role); [|discriminate].
  destruct (te_version te'); [|discriminate]. destruct (te_expires te'); [|discriminate].
  inversion Hss; subst ss; clear Hss. cbn [ss_children ss_dkeys ss_edit e_entries].
  rewrite Kc, G2, G3. unfold te0. cbn [ted_from te_children te_new_roles te_dkeys]. rewrite app_nil_r.
  split; [reflexivity|]. split; [reflexivity|]. intro x0. fold (te_entries te'). fold (te_lookup te' x0). rewrite K6.
  apply spec_targets_ext. intro x. unfold te_lookup, te_entries, te0. cbn [ted_from te_existing te_new]. reflexivity.
Qed.

(* ---------------------------------------------------------------------------------------- *)
(* frame: putting the document of the role under edit back into the tree (sign_targets_editor,
   delegated_role_mut(name).targets = ...) changes that role and nothing else *)

(* everything a role says itself: header, version, expiration, targets, key table, signers, and the names of the
   roles it delegates to (their documents are those roles' own) *)
Definition shallow (n : enode) :=
  (en_hdr n, en_version n, en_expires n, en_entries n, en_dkeys n, en_signers n, names (en_children n)).

Lemma find_go_none fin m l :
  (forall c, In c l -> en_name c <> m /\ fin c = None) -> find_go fin m l = None.
Proof.
  induction l as [|c l IH]; intro H; [reflexivity|]. cbn [find_go].
  destruct (H c (or_introl eq_refl)) as [Hn Hf]. apply bytes_eqb_neq in Hn. rewrite Hn, Hf.
  apply IH. intros x Hx. apply H. right. exact Hx.
Qed.

Lemma find_role_in_none p : forall m, ~ In m (names (all_roles (en_children p))) -> find_role_in m p = None.
Proof.
  induction p as [h v e en dk ch sg IH] using enode_ind'. intros m Hn. rewrite find_role_in_eq. cbn [en_children] in *.
  apply find_go_none. intros c Hc. rewrite Forall_forall in IH. split.
  - intro E. apply Hn. rewrite <- E. apply in_names, in_all_roles, Hc.
  - apply IH; [exact Hc|]. intro Hin. apply Hn. unfold names in *. apply in_map_iff in Hin as (x & Ex & Hx).
    rewrite <- Ex. apply in_names. eapply in_all_roles_sub; [exact Hc|]. rewrite en_flat_eq. right. exact Hx.
Qed.

(* replace succeeds exactly where find does *)
Lemma replace_find d top : forall name,
  match replace_role name d top with
  | Some _ => exists c, find_role_in name top = Some c
  | None => find_role_in name top = None
  end.
Proof.
  induction top as [h v e en dk ch sg IH] using enode_ind'. intro name.
  rewrite replace_role_eq, find_role_in_eq. cbn [en_children en_hdr en_version en_expires en_entries en_dkeys en_signers].
  rewrite Forall_forall in IH.
  assert (match replace_go (replace_role name d) name d ch with
          | Some _ => exists c, find_go (find_role_in name) name ch = Some c
          | None => find_go (find_role_in name) name ch = None end) as H.
  { induction ch as [|c r IHr]; [reflexivity|]. cbn [replace_go find_go].
    destruct (bytes_eqb (en_name c) name); [eexists; reflexivity|].
    pose proof (IH c (or_introl eq_refl) name) as Hc. destruct (replace_role name d c) as [c'|].
    - destruct Hc as [x ->]. eexists; reflexivity.
    - rewrite Hc. specialize (IHr (fun y Hy => IH y (or_intror Hy))).
      destruct (replace_go (replace_role name d) name d r); exact IHr. }
  destruct (replace_go (replace_role name d) name d ch); exact H.
Qed.

Lemma replace_go_names rep name d : (forall c c', rep c = Some c' -> en_name c' = en_name c) ->
  forall l l', replace_go rep name d l = Some l' -> names l' = names l.
Proof.
  intros Hrep. induction l as [|c r IH]; intros l' H; [discriminate|]. cbn [replace_go] in H.
  destruct (bytes_eqb (en_name c) name).
  - inversion H; subst. reflexivity.
  - destruct (rep c) as [c'|] eqn:R.
    + inversion H; subst. cbn [names map]. rewrite (Hrep c c' R). reflexivity.
    + destruct (replace_go rep name d r) as [r'|]; [|discriminate]. inversion H; subst. cbn [names map]. f_equal. apply IH. reflexivity.
Qed.

Lemma replace_shallow d top name top' : replace_role name d top = Some top' -> shallow top' = shallow top.
Proof.
  rewrite replace_role_eq. destruct (replace_go (replace_role name d) name d (en_children top)) as [ch'|] eqn:G; [|discriminate].
  intro H. inversion H; subst; clear H. unfold shallow. cbn [en_hdr en_version en_expires en_entries en_dkeys en_signers en_children].
  rewrite (replace_go_names (replace_role name d) name d (fun c c' R => proj1 (replace_role_names d c name c' R)) _ _ G).
  reflexivity.
Qed.

Theorem replace_role_frame d top : forall name top' c m,
  replace_role name d top = Some top' ->
  find_role_in name top = Some c ->
  m <> name ->
  ~ In m (names (all_roles (en_children c))) ->
  ~ In m (names (all_roles (en_children d))) ->
  option_map shallow (find_role_in m top') = option_map shallow (find_role_in m top).
Proof.
  induction top as [h v e en dk ch sg IH] using enode_ind'. intros name top' c m Hrep Hfind Hm Hold Hnew.
  rewrite replace_role_eq in Hrep. cbn [en_children en_hdr en_version en_expires en_entries en_dkeys en_signers] in Hrep.
  destruct (replace_go (replace_role name d) name d ch) as [ch'|] eqn:G; [|discriminate]. inversion Hrep; subst top'; clear Hrep.
  rewrite find_role_in_eq in Hfind. rewrite !find_role_in_eq. cbn [en_children] in *. rewrite Forall_forall in IH.
  revert ch' G Hfind. induction ch as [|c0 r IHr]; intros ch' G Hfind; [discriminate|].
  cbn [replace_go] in G. cbn [find_go] in Hfind.
  destruct (bytes_eqb (en_name c0) name) eqn:E.
  - (* the role itself *)
    inversion G; subst ch'; clear G. inversion Hfind; subst c; clear Hfind. cbn [find_go].
    assert (en_name (set_content c0 d) = en_name c0) as -> by reflexivity.
    apply bytes_eqb_eq in E.
    assert (bytes_eqb (en_name c0) m = false) as -> by (apply bytes_eqb_neq; congruence).
    rewrite (find_role_in_none (set_content c0 d) m) by (unfold set_content; cbn [en_children]; exact Hnew).
    rewrite (find_role_in_none c0 m Hold). reflexivity.
  - pose proof (replace_find d c0 name) as RF. destruct (replace_role name d c0) as [c0'|] eqn:R.
    + (* the role is below c0 *)
      inversion G; subst ch'; clear G. destruct RF as [x Hx]. rewrite Hx in Hfind. inversion Hfind; subst x; clear Hfind.
      cbn [find_go]. rewrite (proj1 (replace_role_names d c0 name c0' R)).
      destruct (bytes_eqb (en_name c0) m).
      * cbn [option_map]. rewrite (replace_shallow d c0 name c0' R). reflexivity.
      * pose proof (IH c0 (or_introl eq_refl) name c0' c m R Hx Hm Hold Hnew) as Hc.
        destruct (find_role_in m c0') as [y'|], (find_role_in m c0) as [y|]; cbn [option_map] in *; try discriminate; try exact Hc.
        reflexivity.
    + (* the role is among the later siblings *)
      rewrite RF in Hfind. destruct (replace_go (replace_role name d) name d r) as [r'|] eqn:G2; [|discriminate].
      inversion G; subst ch'; clear G. cbn [find_go].
      destruct (bytes_eqb (en_name c0) m); [reflexivity|]. destruct (find_role_in m c0); [reflexivity|].
      apply (IHr (fun y Hy => IH y (or_intror Hy)) r' eq_refl Hfind).
Qed.

(* and the role itself gets the document, under the header its delegating role has for it *)
Theorem replace_role_sets d top : forall name top',
  replace_role name d top = Some top' ->
  exists c, find_role_in name top = Some c /\ find_role_in name top' = Some (set_content c d).
Proof.
  induction top as [h v e en dk ch sg IH] using enode_ind'. intros name top' Hrep.
  rewrite replace_role_eq in Hrep. cbn [en_children en_hdr en_version en_expires en_entries en_dkeys en_signers] in Hrep.
  destruct (replace_go (replace_role name d) name d ch) as [ch'|] eqn:G; [|discriminate]. inversion Hrep; subst top'; clear Hrep.
  rewrite !find_role_in_eq. cbn [en_children] in *. rewrite Forall_forall in IH.
  revert ch' G. induction ch as [|c0 r IHr]; intros ch' G; [discriminate|]. cbn [replace_go] in G. cbn [find_go].
  destruct (bytes_eqb (en_name c0) name) eqn:E.
  - inversion G; subst ch'; clear G. exists c0. split; [reflexivity|]. cbn [find_go].
    assert (en_name (set_content c0 d) = en_name c0) as -> by reflexivity. rewrite E. reflexivity.
  - pose proof (replace_find d c0 name) as RF. destruct (replace_role name d c0) as [c0'|] eqn:R.
    + inversion G; subst ch'; clear G. destruct (IH c0 (or_introl eq_refl) name c0' R) as (c & H1 & H2).
      exists c. rewrite H1. split; [reflexivity|]. cbn [find_go]. rewrite (proj1 (replace_role_names d c0 name c0' R)), E, H2. reflexivity.
    + rewrite RF. destruct (replace_go (replace_role name d) name d r) as [r'|] eqn:G2; [|discriminate].
      inversion G; subst ch'; clear G. destruct (IHr (fun y Hy => IH y (or_intror Hy)) r' eq_refl) as (c & H1 & H2).
      exists c. split; [exact H1|]. cbn [find_go]. rewrite E, RF. exact H2.
Qed.

(* ---------------------------------------------------------------------------------------- *)
(* the cross-party flow: incoming metadata for a delegated role is taken only with a threshold of distinct
   authorised signatures under the delegating role and a version that is not lower; the role then holds the
   incoming document, under the header its delegating role has for it, and the editor holds no role under edit *)
Theorem update_checked r st name adds version expires keys st' :
  ed_step r st (OpUpdate name adds version expires keys) = Some st' ->
  exists top cur dk sibs inc top',
    rd_top st = Some top /\ parent_in name top = Some (dk, sibs) /\ find_role_in name top = Some cur
    /\ incoming r top name adds version expires keys = Some inc
    /\ (exists h, find_hdr name (hdrs_of sibs) = Some h
                  /\ spec_accept dk (dh_keyids h) (dh_threshold h) (sign_with (dh_keyids (en_hdr cur)) (en_signers inc)) = true)
    /\ en_version cur <= version
    /\ rd_te st' = None /\ rd_top st' = Some top'
    /\ exists c, find_role_in name top' = Some c
                 /\ en_hdr c = en_hdr cur /\ en_version c = version /\ en_expires c = expires
                 /\ en_entries c = textend (en_entries cur) adds /\ en_dkeys c = en_dkeys cur /\ en_signers c = en_signers inc.
Proof.
  cbn [ed_step]. destruct (bytes_eqb name name_targets_role); [discriminate|].
  destruct (rd_top st) as [top|] eqn:Htop; [|discriminate].
  destruct (incoming r top name adds version expires keys) as [inc|] eqn:I; [|discriminate].
  unfold update_delegated. rewrite Htop.
  destruct (parent_in name top) as [[dk sibs]|] eqn:P; [|discriminate].
  destruct (find_role_in name top) as [cur|] eqn:F; [|discriminate].
  destruct (deleg_verify fixed dk (hdrs_of sibs) name (sign_with (dh_keyids (en_hdr cur)) (en_signers inc))) eqn:V; [|discriminate].
  destruct (en_version cur <=? en_version inc) eqn:Hv; [|discriminate]. cbn [andb].
  destruct (attach_loaded cur (en_children inc)) as [ch'|]; [|discriminate].
  destruct (replace_role name _ top) as [top'|] eqn:R; [|discriminate]. intro H. inversion H; subst st'; clear H.
  assert (inc = ENode (en_hdr cur) version expires (textend (en_entries cur) adds) (en_dkeys cur) (en_children cur) (en_signers inc)) as Einc.
  { unfold incoming in I. rewrite P, F in I. destruct (sign_as r (HDeleg dk sibs) name keys); [|discriminate]. inversion I; subst. reflexivity. }
  exists top, cur, dk, sibs, inc, top'. do 4 (split; [first [reflexivity|assumption]|]).
  split.
  { unfold deleg_verify in V. destruct (find_hdr name (hdrs_of sibs)) as [h|]; [|discriminate]. exists h. split; [reflexivity|].
    cbn [fixed fx_deleg_distinct] in V. rewrite verify_distinct_spec in V. exact V. }
  split; [rewrite Einc in Hv; cbn [en_version] in Hv; lia|]. split; [reflexivity|]. split; [reflexivity|].
  destruct (replace_role_sets _ _ _ _ R) as (c & Hc1 & Hc2). rewrite F in Hc1. inversion Hc1; subst c; clear Hc1.
  eexists. split; [exact Hc2|]. unfold set_content. cbn [en_hdr en_version en_expires en_entries en_dkeys en_signers].
  rewrite Einc. cbn [en_version en_expires en_entries en_dkeys en_signers]. repeat split.
Qed.

(* non-vacuity: the program of program_example, signed and written; the holder of A (keys 4, 5, 6; threshold 2)
   adds a target at version 5 and signs with two of its keys; the owner takes the metadata in, signs again, and the
   client loads the new target; with one key the holder cannot sign, and an older version is refused *)
Definition x_cross (holder_keys : list N) (v : N) : list edop :=
  x_prog [9; 8; 2] ++ [OpSign [1; 2; 3; 20]; OpFromRepo;
                        OpUpdate [65] [(x_tn [97; 47; 110; 101; 119], x_ti 7 70)] v 450 holder_keys;
                        OpChange name_targets_role;
                        OpTargetsVersion 8; OpTargetsExpires 900; OpSnapshotVersion 9; OpSnapshotExpires 800;
                        OpTimestampVersion 10; OpTimestampExpires 700].

Lemma cross_example : forall cs,
  exists tg sn ts srv w,
    ed_program_sign x_len x_len (x_root cs) (x_cross [4; 6] 5) [1; 2; 3; 20] = Some (tg, sn, ts, srv)
    /\ run_cycle fixed (x_cyc cs srv) store0 = (Ok {| rp_root := x_root cs; rp_ts := ts; rp_snap := sn; rp_targets := tg |}, w)
    /\ map (fun ni => (tn_raw (fst ni), ti_len (snd ni))) (targets_iter tg)
       = [([116], 5); ([97; 47; 120], 1); ([97; 47; 110; 101; 119], 7); ([98; 47; 122], 2)]
    /\ nth 29 (snd (ed_run (x_root cs) red_new (x_cross [4; 6] 5))) false = true
    /\ nth 29 (snd (ed_run (x_root cs) red_new (x_cross [4] 5))) true = false
    /\ nth 29 (snd (ed_run (x_root cs) red_new (x_cross [4; 6] 2))) true = false.
Proof.
  intro cs.
  destruct (ed_program_sign x_len x_len (x_root cs) (x_cross [4; 6] 5) [1; 2; 3; 20])
    as [[[[tg sn] ts] srv]|] eqn:E; [|destruct cs; vm_compute in E; discriminate].
  destruct (ed_at_sign (fst (ed_run (x_root cs) red_new (x_cross [4; 6] 5))) [1; 2; 3; 20]) as [ss|] eqn:Ess;
    [|destruct cs; vm_compute in Ess; discriminate].
  destruct (program_roundtrip x_len x_len (x_root cs) (x_cross [4; 6] 5) [1; 2; 3; 20] x_cfg 100 tg sn ts srv ss Ess E) as [w Hw].
  - reflexivity.
  - intros k Hk. cbn in Hk. intuition (subst; reflexivity).
  - small_names.
  - destruct cs; [discriminate|]. intros _. cbn. intuition discriminate.
  - reflexivity.
  - destruct cs; vm_compute in Ess; injection Ess as <-; vm_compute; lia.
  - destruct cs; vm_compute in E; injection E as <- <- <- <-; vm_compute; discriminate.
  - vm_compute; discriminate.
  - destruct cs; vm_compute in Ess; injection Ess as <-; vm_compute; discriminate.
  - destruct cs; vm_compute in Ess; injection Ess as <-; vm_compute; discriminate.
  - destruct cs; vm_compute in Ess; injection Ess as <-; vm_compute; discriminate.
  - exists tg, sn, ts, srv, w. split; [reflexivity|]. split; [exact Hw|].
    destruct cs; vm_compute in E; injection E as <- <- <- <-; repeat split; vm_compute; reflexivity.
Qed.

(* ---------------------------------------------------------------------------------------- *)
(* editing a delegated role: change_delegated_targets, operations on the role, sign_targets_editor. The tree then
   holds, under the same header, the role with the abstract map after those operations; with
   C10_role_update_frame nothing any other role says itself has changed, and with C10_program_roundtrip /
   C10_loaded_tree_exact this tree is what a client loads after the final sign. *)
Theorem role_edit_seen r st top R st1 seg keys st3 old :
  R <> name_targets_role ->
  rd_top st = Some top -> find_role_in R top = Some old ->
  ed_step r st (OpChange R) = Some st1 ->
  forallb stays seg = true ->
  ed_step r (fst (ed_run r st1 seg)) (OpSignEditor keys) = Some st3 ->
  exists top3 c, rd_top st3 = Some top3 /\ rd_te st3 = None /\ find_role_in R top3 = Some c /\ en_hdr c = en_hdr old
                 /\ forall n, lookup_target n (en_entries c) = spec_targets seg (fun x => lookup_target x (en_entries old)) n.
Proof.
  intros HR Htop Hold Hch Hs Hsign.
  assert (bytes_eqb R name_targets_role = false) as HRb by (apply bytes_eqb_neq; exact HR).
  cbn [ed_step] in Hch. destruct (rd_te st) eqn:Hte0; [discriminate|]. rewrite Htop, HRb, Hold in Hch.
  destruct (parent_in R top) as [[dk sibs]|]; [|discriminate]. inversion Hch; subst st1; clear Hch.
  set (te0 := ted_from R (HDeleg dk sibs) old) in *.
  destruct (run_stays r seg (with_te st te0) te0 eq_refl I Hs) as (te' & K1 & K2 & K3 & K4 & K5 & Kc & K6).
  set (st2 := fst (ed_run r (with_te st te0) seg)) in *.
  cbn [ed_step] in Hsign. unfold sign_editor in Hsign. rewrite K1 in Hsign.
  destruct (ted_build r te' keys) as [doc|] eqn:B; [|discriminate].
  assert (te_name te' = R) as Hn by (rewrite K3; reflexivity). rewrite Hn, HRb in Hsign.
  rewrite K5 in Hsign. cbn [with_te rd_top] in Hsign. rewrite Htop in Hsign.
  destruct (replace_role R doc top) as [top3|] eqn:Rp; [|discriminate]. inversion Hsign; subst st3; clear Hsign.
  destruct (replace_role_sets _ _ _ _ Rp) as (c0 & Hc1 & Hc2). rewrite Hold in Hc1. inversion Hc1; subst c0; clear Hc1.
  exists top3, (set_content old doc). split; [reflexivity|]. split; [reflexivity|]. split; [exact Hc2|]. split; [reflexivity|].
  intro n. unfold set_content. cbn [en_entries].
  assert (en_entries doc = te_entries te') as ->.
  { unfold ted_build in B. destruct (te_version te'), (te_expires te'); try discriminate.
    destruct (sign_as r (te_holder te') (te_name te') keys); [|discriminate]. inversion B; subst. reflexivity. }
  fold (te_lookup te' n). rewrite K6. apply spec_targets_ext. intro x. unfold te_lookup, te_entries, te0. cbn [ted_from te_existing te_new].
  reflexivity.
Qed.

(* ---------------------------------------------------------------------------------------- *)
(* versions and expirations: what the client sees is what was set last *)
Record settings := { g_tv : option N; g_texp : option Z; g_sv : option N; g_sexp : option Z; g_tsv : option N; g_tsexp : option Z }.
Definition settings_step (o : edop) (g : settings) : settings :=
  match o with
  | OpTargetsVersion v => {| g_tv := Some v; g_texp := g_texp g; g_sv := g_sv g; g_sexp := g_sexp g; g_tsv := g_tsv g; g_tsexp := g_tsexp g |}
  | OpTargetsExpires e => {| g_tv := g_tv g; g_texp := Some e; g_sv := g_sv g; g_sexp := g_sexp g; g_tsv := g_tsv g; g_tsexp := g_tsexp g |}
  | OpSnapshotVersion v => {| g_tv := g_tv g; g_texp := g_texp g; g_sv := Some v; g_sexp := g_sexp g; g_tsv := g_tsv g; g_tsexp := g_tsexp g |}
  | OpSnapshotExpires e => {| g_tv := g_tv g; g_texp := g_texp g; g_sv := g_sv g; g_sexp := Some e; g_tsv := g_tsv g; g_tsexp := g_tsexp g |}
  | OpTimestampVersion v => {| g_tv := g_tv g; g_texp := g_texp g; g_sv := g_sv g; g_sexp := g_sexp g; g_tsv := Some v; g_tsexp := g_tsexp g |}
  | OpTimestampExpires e => {| g_tv := g_tv g; g_texp := g_texp g; g_sv := g_sv g; g_sexp := g_sexp g; g_tsv := g_tsv g; g_tsexp := Some e |}
  | _ => g
  end.
Definition settings_of (st : red) (te : ted) : settings :=
  {| g_tv := te_version te; g_texp := te_expires te; g_sv := rd_sv st; g_sexp := rd_sexp st; g_tsv := rd_tsv st; g_tsexp := rd_tsexp st |}.

Lemma step_settings r st te o st' :
  rd_te st = Some te -> stays o = true -> ed_step r st o = Some st' ->
  exists te', rd_te st' = Some te' /\ settings_of st' te' = settings_step o (settings_of st te).
Proof.
  intros Hte Hs H. destruct o; try discriminate Hs; cbn [ed_step] in H; rewrite ?Hte in H;
    try (inversion H; subst; clear H; eexists; split; [cbn; try rewrite Hte; reflexivity|]; reflexivity).
  destruct (if bytes_eqb name name_targets_role then [] else keys); [discriminate|]. inversion H; subst; clear H.
  eexists. split; [reflexivity|]. reflexivity.
Qed.

Lemma refused_settings r st te o : rd_te st = Some te -> stays o = true -> ed_step r st o = None ->
  forall g, settings_step o g = g.
Proof.
  intros Hte S H g. destruct o; try discriminate S; cbn [ed_step] in H; rewrite ?Hte in H; try discriminate. reflexivity.
Qed.

Lemma run_settings r : forall ops st te, rd_te st = Some te -> forallb stays ops = true ->
  exists te', rd_te (fst (ed_run r st ops)) = Some te'
              /\ settings_of (fst (ed_run r st ops)) te' = fold_left (fun g o => settings_step o g) ops (settings_of st te).
Proof.
  induction ops as [|o ops IH]; intros st te Hte Hs; cbn [ed_run fst fold_left].
  - exists te. split; [exact Hte|reflexivity].
  - cbn [forallb] in Hs. apply andb_true_iff in Hs as [So Hs]. destruct (ed_step r st o) as [st'|] eqn:S.
    + destruct (step_settings r st te o st' Hte So S) as (te1 & Hte1 & Hg1).
      destruct (IH st' te1 Hte1 Hs) as (te' & H1 & H2). destruct (ed_run r st' ops) as [s out]. cbn [fst] in *.
      exists te'. split; [exact H1|]. rewrite H2, Hg1. reflexivity.
    + destruct (IH st te Hte Hs) as (te' & H1 & H2). destruct (ed_run r st ops) as [s out]. cbn [fst] in *.
      exists te'. split; [exact H1|]. rewrite H2, (refused_settings r st te o Hte So S). reflexivity.
Qed.

Lemma sign_tree_settings len_of dig_of r e dkeys ch keys tg sn ts srv :
  ed_sign_tree len_of dig_of r e dkeys ch keys = Some (tg, sn, ts, srv) ->
  tg_version tg = e_tv e /\ tg_expires tg = e_texp e /\ sn_version sn = e_sv e /\ sn_expires sn = e_sexp e
  /\ ts_version ts = e_tsv e /\ ts_expires ts = e_tsexp e.
Proof.
  unfold ed_sign_tree, ed_sign_tree_gen.
  destruct (signed_role r 2 keys), (signed_role r 1 keys), (signed_role r 3 keys); try discriminate.
  destruct (_ && _); [|discriminate]. destruct (validate _); [|discriminate].
  intro H. inversion H; subst. repeat split.
Qed.

Theorem program_settings_seen (len_of dig_of : content -> N) r pre seg keys te0 tg sn ts srv :
  rd_te (fst (ed_run r red_new pre)) = Some te0 ->
  forallb stays seg = true ->
  ed_program_sign len_of dig_of r (pre ++ seg) keys = Some (tg, sn, ts, srv) ->
  fold_left (fun g o => settings_step o g) seg (settings_of (fst (ed_run r red_new pre)) te0)
  = {| g_tv := Some (tg_version tg); g_texp := Some (tg_expires tg); g_sv := Some (sn_version sn); g_sexp := Some (sn_expires sn);
       g_tsv := Some (ts_version ts); g_tsexp := Some (ts_expires ts) |}.
Proof.
  intros Hte Hs Hsign. unfold ed_program_sign in Hsign. rewrite run_app in Hsign.
  destruct (run_settings r seg _ te0 Hte Hs) as (te' & H1 & H2). rewrite <- H2.
  unfold ed_at_sign in Hsign. rewrite H1 in Hsign.
  set (st' := fst (ed_run r (fst (ed_run r red_new pre)) seg)) in *.
  unfold settings_of.
  destruct (rd_sv st'); [|discriminate]. destruct (rd_sexp st'); [|discriminate].
  destruct (rd_tsv st'); [|discriminate]. destruct (rd_tsexp st'); [|discriminate].
  destruct (bytes_eqb (te_name te') name_targets_role); [|discriminate].
  destruct (te_version te'); [|discriminate]. destruct (te_expires te'); [|discriminate].
  apply sign_tree_settings in Hsign as (E1 & E2 & E3 & E4 & E5 & E6). cbn [ss_edit e_tv e_texp e_sv e_sexp e_tsv e_tsexp] in *.
  rewrite E1, E2, E3, E4, E5, E6. reflexivity.
Qed.
