(* The editing operations (Model/EdOps.v): the two target maps of a TargetsEditor refine one abstract map;
   the names of the roles an editor holds come from the program's delegate_role calls; a program whose
   final sign succeeds is loaded back by the client (composition with Proofs/EditorTreeP.v). *)
From ToughV Require Import Model.Base Model.Pct Model.Sig Model.Glob Model.Deleg Model.Client Model.EditorRT Model.EdOps.
From ToughV Require Import Proofs.BaseP Proofs.SigP Proofs.EditorTreeP.
From Coq Require Import ZifyBool ZifyN ZifyNat Lia.

(* ---------------------------------------------------------------------------------------- *)
(* TargetName equality (derived Eq: raw and resolved) is an equivalence *)
Lemma tname_eqb_spec a b : tname_eqb a b = true <-> tn_raw a = tn_raw b /\ tn_resolved a = tn_resolved b.
Proof. unfold tname_eqb. rewrite andb_true_iff, !bytes_eqb_eq. reflexivity. Qed.
Lemma tname_eqb_refl a : tname_eqb a a = true.
Proof. apply tname_eqb_spec. split; reflexivity. Qed.
Lemma tname_eqb_sym a b : tname_eqb a b = tname_eqb b a.
Proof.
  destruct (tname_eqb a b) eqn:E, (tname_eqb b a) eqn:F; try reflexivity.
  - apply tname_eqb_spec in E as [E1 E2]. assert (tname_eqb b a = true) by (apply tname_eqb_spec; split; congruence). congruence.
  - apply tname_eqb_spec in F as [F1 F2]. assert (tname_eqb a b = true) by (apply tname_eqb_spec; split; congruence). congruence.
Qed.
Lemma tname_eqb_trans_l a b c : tname_eqb a b = true -> tname_eqb a c = tname_eqb b c.
Proof.
  intro E. apply tname_eqb_spec in E as [E1 E2].
  destruct (tname_eqb a c) eqn:A, (tname_eqb b c) eqn:B; try reflexivity.
  - apply tname_eqb_spec in A as [A1 A2]. assert (tname_eqb b c = true) by (apply tname_eqb_spec; split; congruence). congruence.
  - apply tname_eqb_spec in B as [B1 B2]. assert (tname_eqb a c = true) by (apply tname_eqb_spec; split; congruence). congruence.
Qed.
Lemma tname_eqb_trans_r a b c : tname_eqb a b = true -> tname_eqb c a = tname_eqb c b.
Proof. intro E. rewrite (tname_eqb_sym c a), (tname_eqb_sym c b). apply tname_eqb_trans_l, E. Qed.

(* ---------------------------------------------------------------------------------------- *)
(* the maps *)
Lemma lookup_tput n m i l :
  lookup_target n (tput m i l) = if tname_eqb n m then Some i else lookup_target n l.
Proof.
  induction l as [|[k v] l IH]; cbn [tput lookup_target].
  - reflexivity.
  - destruct (tname_eqb m k) eqn:E; cbn [lookup_target].
    + destruct (tname_eqb n m) eqn:F; [reflexivity|].
      rewrite <- (tname_eqb_trans_r m k n E), F. reflexivity.
    + rewrite IH. destruct (tname_eqb n k) eqn:G; [|reflexivity].
      destruct (tname_eqb n m) eqn:F; [|reflexivity].
      rewrite (tname_eqb_sym n m) in F. rewrite (tname_eqb_trans_l m n k F) in E. congruence.
Qed.

Lemma lookup_tdel n m l :
  lookup_target n (tdel m l) = if tname_eqb n m then None else lookup_target n l.
Proof.
  induction l as [|[k v] l IH]; cbn [tdel filter lookup_target fst].
  - destruct (tname_eqb n m); reflexivity.
  - fold (tdel m l). destruct (tname_eqb m k) eqn:E; cbn [negb lookup_target].
    + rewrite IH. destruct (tname_eqb n m) eqn:F; [reflexivity|].
      rewrite <- (tname_eqb_trans_r m k n E), F. reflexivity.
    + rewrite IH. destruct (tname_eqb n k) eqn:G; [|reflexivity].
      destruct (tname_eqb n m) eqn:F; [|reflexivity].
      rewrite (tname_eqb_sym n m) in F. rewrite (tname_eqb_trans_l m n k F) in E. congruence.
Qed.

Lemma lookup_target_eqv a b l : tname_eqb a b = true -> lookup_target a l = lookup_target b l.
Proof.
  intro E. induction l as [|[k v] l IH]; cbn [lookup_target]; [reflexivity|].
  rewrite (tname_eqb_trans_l a b k E), IH. reflexivity.
Qed.

(* a map holds a name once *)
Fixpoint tdistinct (l : list (tname * tinfo)) : Prop :=
  match l with
  | [] => True
  | (k, _) :: r => lookup_target k r = None /\ tdistinct r
  end.

Lemma tdistinct_tput m i l : tdistinct l -> tdistinct (tput m i l).
Proof.
  induction l as [|[k v] l IH]; cbn [tput tdistinct]; [auto|]. intros [H1 H2].
  destruct (tname_eqb m k) eqn:E; cbn [tdistinct].
  - split; [|exact H2]. rewrite (lookup_target_eqv m k l E). exact H1.
  - split; [|apply IH, H2]. rewrite lookup_tput, H1. rewrite (tname_eqb_sym k m), E. reflexivity.
Qed.

Lemma tdistinct_tdel m l : tdistinct l -> tdistinct (tdel m l).
Proof.
  induction l as [|[k v] l IH]; cbn [tdel filter tdistinct fst]; [auto|]. intros [H1 H2]. fold (tdel m l).
  destruct (tname_eqb m k) eqn:E; cbn [negb tdistinct]; [apply IH, H2|].
  split; [|apply IH, H2]. rewrite lookup_tdel, H1. destruct (tname_eqb k m); reflexivity.
Qed.

Lemma tdistinct_textend added : forall base, tdistinct base -> tdistinct (textend base added).
Proof.
  induction added as [|[m i] added IH]; intros base H; cbn [textend fold_left fst snd]; [exact H|].
  apply IH, tdistinct_tput, H.
Qed.

(* HashMap::extend: the added entries win *)
Lemma lookup_textend n added : forall base, tdistinct added ->
  lookup_target n (textend base added)
  = match lookup_target n added with Some i => Some i | None => lookup_target n base end.
Proof.
  induction added as [|[m i] added IH]; intros base H; cbn [textend fold_left lookup_target fst snd].
  - reflexivity.
  - destruct H as [H1 H2]. fold (textend (tput m i base) added). rewrite (IH _ H2), lookup_tput.
    destruct (tname_eqb n m) eqn:E; [|reflexivity].
    rewrite (lookup_target_eqv n m added E), H1. reflexivity.
Qed.

(* ---------------------------------------------------------------------------------------- *)
Arguments textend : simpl never.
Arguments tput : simpl never.
Arguments tdel : simpl never.

(* the targets of the role under edit, as the document built from the editor will list them *)
Definition te_entries (te : ted) : list (tname * tinfo) := textend (te_existing te) (te_new te).
Definition te_lookup (te : ted) (n : tname) : option tinfo := lookup_target n (te_entries te).

(* the abstract map: one map, add = insert, remove = delete, clear = empty *)
Definition spec_targets_step (o : edop) (f : tname -> option tinfo) : tname -> option tinfo :=
  match o with
  | OpAdd m i => fun n => if tname_eqb n m then Some i else f n
  | OpRemove m => fun n => if tname_eqb n m then None else f n
  | OpClear => fun _ => None
  | _ => f
  end.

Definition te_ok (te : ted) : Prop := tdistinct (te_new te).

(* operations that leave the editor on the same role *)
Definition stays (o : edop) : bool :=
  match o with
  | OpSignEditor _ | OpChange _ | OpFromRepo | OpSign _ => false
  | _ => true
  end.

Lemma step_stays r st te o st' :
  rd_te st = Some te -> te_ok te -> stays o = true -> ed_step r st o = Some st' ->
  exists te', rd_te st' = Some te' /\ te_ok te'
              /\ te_name te' = te_name te /\ te_holder te' = te_holder te
              /\ te_children te' = te_children te
              /\ rd_top st' = rd_top st
              /\ forall n, te_lookup te' n = spec_targets_step o (te_lookup te) n.
Proof.
  intros Hte Hok Hs H. destruct o; try discriminate Hs; cbn [ed_step] in H; rewrite ?Hte in H.
  - (* add *) inversion H; subst; clear H. eexists. split; [reflexivity|]. cbn.
    split; [apply tdistinct_tput, Hok|]. repeat (split; [reflexivity|]). intro x.
    unfold te_lookup, te_entries. cbn [te_existing te_new set_targets spec_targets_step].
    rewrite !lookup_textend by (try apply tdistinct_tput; exact Hok). rewrite lookup_tput.
    destruct (tname_eqb x n); reflexivity.
  - (* remove *) inversion H; subst; clear H. eexists. split; [reflexivity|]. cbn.
    split; [apply tdistinct_tdel, Hok|]. repeat (split; [reflexivity|]). intro x.
    unfold te_lookup, te_entries. cbn [te_existing te_new set_targets spec_targets_step].
    rewrite !lookup_textend by (try apply tdistinct_tdel; exact Hok). rewrite !lookup_tdel.
    destruct (tname_eqb x n); reflexivity.
  - (* clear *) inversion H; subst; clear H. eexists. split; [reflexivity|]. cbn.
    split; [exact I|]. repeat (split; [reflexivity|]). intro x. reflexivity.
  - inversion H; subst; clear H. eexists. split; [reflexivity|]. cbn. split; [exact Hok|]. repeat (split; [reflexivity|]). intro x; reflexivity.
  - inversion H; subst; clear H. eexists. split; [reflexivity|]. cbn. split; [exact Hok|]. repeat (split; [reflexivity|]). intro x; reflexivity.
  - inversion H; subst; clear H. exists te. cbn. repeat (split; [assumption || reflexivity|]). intro x; reflexivity.
  - inversion H; subst; clear H. exists te. cbn. repeat (split; [assumption || reflexivity|]). intro x; reflexivity.
  - inversion H; subst; clear H. exists te. cbn. repeat (split; [assumption || reflexivity|]). intro x; reflexivity.
  - inversion H; subst; clear H. exists te. cbn. repeat (split; [assumption || reflexivity|]). intro x; reflexivity.
  - (* delegate *) destruct keys as [|k0 keys]; [discriminate|]. inversion H; subst; clear H.
    eexists. split; [reflexivity|]. cbn. split; [exact Hok|]. repeat (split; [reflexivity|]). intro x; reflexivity.
Qed.

(* ---------------------------------------------------------------------------------------- *)
(* the tree functions, one level at a time *)
Fixpoint find_go (fin : enode -> option enode) (name : bytes) (l : list enode) : option enode :=
  match l with
  | [] => None
  | c :: rest => if bytes_eqb (en_name c) name then Some c
                 else match fin c with
                      | Some x => Some x
                      | None => find_go fin name rest
                      end
  end.
Lemma find_role_in_eq name n : find_role_in name n = find_go (find_role_in name) name (en_children n).
Proof.
  destruct n as [h v e en dk ch sg]. cbn [find_role_in en_children].
  induction ch as [|c r IH]; [reflexivity|]. cbn [find_go]. rewrite <- IH. reflexivity.
Qed.

Fixpoint replace_go (rep : enode -> option enode) (name : bytes) (d : enode) (l : list enode) : option (list enode) :=
  match l with
  | [] => None
  | c :: rest =>
      if bytes_eqb (en_name c) name then Some (set_content c d :: rest)
      else match rep c with
           | Some c' => Some (c' :: rest)
           | None => match replace_go rep name d rest with
                     | Some rest' => Some (c :: rest')
                     | None => None
                     end
           end
  end.
Lemma replace_role_eq name d n :
  replace_role name d n
  = match replace_go (replace_role name d) name d (en_children n) with
    | Some ch' => Some (ENode (en_hdr n) (en_version n) (en_expires n) (en_entries n) (en_dkeys n) ch' (en_signers n))
    | None => None
    end.
Proof.
  destruct n as [h v e en dk ch sg]. cbn [replace_role en_children en_hdr en_version en_expires en_entries en_dkeys en_signers].
  match goal with |- match ?a with _ => _ end = match ?b with _ => _ end => assert (a = b) as ->; [|reflexivity] end.
  induction ch as [|c r IH]; [reflexivity|]. cbn [replace_go]. rewrite <- IH. reflexivity.
Qed.

(* a role found in a tree is one of its roles, and so are the roles below it *)
Lemma flat_trans p : forall q, In q (en_flat p) -> incl (en_flat q) (en_flat p).
Proof.
  induction p as [h v e en dk ch sg IH] using enode_ind'. intros q Hq.
  rewrite en_flat_eq in Hq. destruct Hq as [Hq|Hq]; [subst q; apply incl_refl|].
  cbn [en_children] in Hq. apply in_flat_map in Hq as (c & Hc & Hq).
  rewrite Forall_forall in IH. intros x Hx. rewrite en_flat_eq. right. cbn [en_children].
  apply in_flat_map. exists c. split; [exact Hc|]. exact (IH c Hc q Hq x Hx).
Qed.

Lemma find_role_in_in top : forall name n, find_role_in name top = Some n -> In n (all_roles (en_children top)).
Proof.
  induction top as [h v e en dk ch sg IH] using enode_ind'. intros name n H.
  rewrite find_role_in_eq in H. cbn [en_children] in *. rewrite Forall_forall in IH.
  induction ch as [|c r IHr]; [discriminate|]. cbn [find_go] in H. cbn [all_roles flat_map].
  destruct (bytes_eqb (en_name c) name).
  - inversion H; subst. apply in_or_app. left. apply in_flat_self.
  - destruct (find_role_in name c) as [x|] eqn:F.
    + inversion H; subst. apply in_or_app. left. rewrite en_flat_eq. right. apply (IH c (or_introl eq_refl) name n F).
    + apply in_or_app. right. apply IHr; [|exact H]. intros y Hy. apply IH. right. exact Hy.
Qed.

Lemma find_role_in_name top : forall name n, find_role_in name top = Some n -> en_name n = name.
Proof.
  induction top as [h v e en dk ch sg IH] using enode_ind'. intros name n H.
  rewrite find_role_in_eq in H. cbn [en_children] in *. rewrite Forall_forall in IH.
  induction ch as [|c r IHr]; [discriminate|]. cbn [find_go] in H.
  destruct (bytes_eqb (en_name c) name) eqn:E.
  - inversion H; subst. apply bytes_eqb_eq, E.
  - destruct (find_role_in name c) as [x|] eqn:F.
    + inversion H; subst. apply (IH c (or_introl eq_refl) name n F).
    + apply IHr; [|exact H]. intros y Hy. apply IH. right. exact Hy.
Qed.

Lemma sub_names n ch : In n (all_roles ch) -> incl (names (all_roles (en_children n))) (names (all_roles ch)).
Proof.
  intros Hn x Hx. unfold names in *. apply in_map_iff in Hx as (y & Ey & Hy). apply in_map_iff. exists y. split; [exact Ey|].
  apply in_flat_map in Hn as (c & Hc & Hn). apply in_flat_map. exists c. split; [exact Hc|].
  apply (flat_trans c n Hn). rewrite en_flat_eq. right. exact Hy.
Qed.

(* replacing a role's document: the names of the new tree come from the old tree and from the document *)
Lemma replace_role_names d top : forall name top', replace_role name d top = Some top' ->
  en_name top' = en_name top
  /\ incl (names (all_roles (en_children top')))
          (names (all_roles (en_children top)) ++ names (all_roles (en_children d))).
Proof.
  induction top as [h v e en dk ch sg IH] using enode_ind'. intros name top' H.
  rewrite replace_role_eq in H. cbn [en_children en_hdr en_version en_expires en_entries en_dkeys en_signers] in *.
  destruct (replace_go (replace_role name d) name d ch) as [ch'|] eqn:G; [|discriminate]. inversion H; subst; clear H.
  split; [reflexivity|]. cbn [en_children]. rewrite Forall_forall in IH.
  revert ch' G. induction ch as [|c r IHr]; intros ch' G; [discriminate|]. cbn [replace_go] in G.
  destruct (bytes_eqb (en_name c) name) eqn:E.
  - inversion G; subst; clear G. rewrite !names_all_roles_cons, !names_flat.
    unfold set_content at 1. cbn [en_name en_hdr]. fold (en_name c).
    intros x [Hx|Hx]; [left; exact Hx|]. apply in_app_or in Hx as [Hx|Hx].
    + unfold set_content in Hx. cbn [en_children] in Hx. apply in_or_app. right. exact Hx.
    + apply in_or_app. left. right. apply in_or_app. right. exact Hx.
  - destruct (replace_role name d c) as [c'|] eqn:F.
    + inversion G; subst; clear G. destruct (IH c (or_introl eq_refl) name c' F) as [Hn Hi].
      rewrite !names_all_roles_cons, !names_flat, Hn.
      intros x [Hx|Hx]; [left; exact Hx|]. apply in_app_or in Hx as [Hx|Hx].
      * apply Hi in Hx. apply in_app_or in Hx as [Hx|Hx]; apply in_or_app; [left|right; exact Hx].
        right. apply in_or_app. left. exact Hx.
      * apply in_or_app. left. right. apply in_or_app. right. exact Hx.
    + destruct (replace_go (replace_role name d) name d r) as [r'|] eqn:G2; [|discriminate]. inversion G; subst; clear G.
      rewrite !names_all_roles_cons. intros x Hx. apply in_app_or in Hx as [Hx|Hx].
      * apply in_or_app. left. apply in_or_app. left. exact Hx.
      * assert (In x (names (all_roles r) ++ names (all_roles (en_children d)))) as Hy.
        { apply (IHr (fun y Hy => IH y (or_intror Hy)) r' eq_refl). exact Hx. }
        apply in_app_or in Hy as [Hy|Hy]; apply in_or_app; [left|right; exact Hy]. apply in_or_app. right. exact Hy.
Qed.

(* ---------------------------------------------------------------------------------------- *)
(* every role an editor holds was created by a delegate_role call of the program *)
Definition op_names (o : edop) : list bytes :=
  match o with OpDelegate name _ _ _ _ _ => [name] | _ => [] end.
Definition ops_names (ops : list edop) : list bytes := flat_map op_names ops.

Definition top_names (st : red) : list bytes :=
  match rd_top st with Some t => names (all_roles (en_children t)) | None => [] end.
Definition te_names (st : red) : list bytes :=
  match rd_te st with Some te => names (all_roles (te_children te ++ te_new_roles te)) | None => [] end.
Definition st_names (st : red) : list bytes := top_names st ++ te_names st.

Lemma sign_editor_names r st keys st' : sign_editor r st keys = Some st' -> incl (st_names st') (st_names st).
Proof.
  unfold sign_editor. destruct (rd_te st) as [te|] eqn:Hte; [|intro H; inversion H; subst; apply incl_refl].
  unfold ted_build. destruct (te_version te) as [v|]; [|discriminate]. destruct (te_expires te) as [e|]; [|discriminate].
  destruct (sign_as r (te_holder te) (te_name te) keys) as [signers|]; [|discriminate].
  destruct (bytes_eqb (te_name te) name_targets_role).
  - intro H. inversion H; subst; clear H. unfold st_names, top_names, te_names. cbn [rd_top rd_te en_children]. rewrite Hte, app_nil_r.
    apply incl_appr, incl_refl.
  - destruct (rd_top st) as [top|] eqn:Htop; [|discriminate].
    destruct (replace_role _ _ top) as [top'|] eqn:R; [|discriminate]. intro H. inversion H; subst; clear H.
    unfold st_names, top_names, te_names. cbn [rd_top rd_te]. rewrite Hte, Htop, app_nil_r.
    apply replace_role_names in R as [_ R]. cbn [en_children] in R. exact R.
Qed.

Lemma step_names r st o st' : ed_step r st o = Some st' -> incl (st_names st') (st_names st ++ op_names o).
Proof.
  destruct o; cbn [ed_step op_names]; rewrite ?app_nil_r.
  1-5: destruct (rd_te st) as [te|] eqn:Hte; [|discriminate]; intro H; inversion H; subst; clear H;
       unfold st_names, top_names, te_names; cbn; rewrite Hte; apply incl_refl.
  1-4: intro H; inversion H; subst; clear H; unfold st_names, top_names, te_names; cbn; apply incl_refl.
  - (* delegate *) destruct keys as [|k0 keys]; [discriminate|]. destruct (rd_te st) as [te|] eqn:Hte; [|discriminate].
    intro H. inversion H; subst; clear H. unfold st_names, top_names, te_names. cbn [rd_top rd_te with_te te_children te_new_roles].
    rewrite Hte, app_assoc, names_all_roles_app. cbn [all_roles flat_map en_flat en_children names map app en_name en_hdr dh_name].
    rewrite app_assoc. apply incl_refl.
  - apply sign_editor_names.
  - (* change *) destruct (rd_te st) eqn:Hte; [discriminate|]. destruct (rd_top st) as [top|] eqn:Htop; [|discriminate].
    destruct (bytes_eqb role name_targets_role).
    + intro H. inversion H; subst; clear H. unfold st_names, top_names, te_names. cbn. rewrite Hte, Htop, !app_nil_r.
      apply incl_app; apply incl_refl.
    + destruct (parent_in role top) as [[dk sibs]|]; [|discriminate]. destruct (find_role_in role top) as [n|] eqn:F; [|discriminate].
      intro H. inversion H; subst; clear H. unfold st_names, top_names, te_names. cbn. rewrite Hte, Htop, !app_nil_r.
      apply incl_app; [apply incl_refl|]. apply sub_names, (find_role_in_in top role n F).
  - (* from_repo *) destruct (rd_top st) as [top|] eqn:Htop; [|discriminate].
    intro H. inversion H; subst; clear H. unfold st_names, top_names, te_names. cbn. rewrite Htop, !app_nil_r.
    apply incl_app; apply incl_appl, incl_refl.
  - (* sign *) destruct (ed_at_sign st keys); [|discriminate]. destruct (sign_accepts r s); [|discriminate]. apply sign_editor_names.
Qed.

Lemma run_names r : forall ops st, incl (st_names (fst (ed_run r st ops))) (st_names st ++ ops_names ops).
Proof.
  induction ops as [|o ops IH]; intro st; cbn [ed_run ops_names flat_map]; [rewrite app_nil_r; apply incl_refl|].
  destruct (ed_step r st o) as [st'|] eqn:S.
  - specialize (IH st'). destruct (ed_run r st' ops) as [s out]. cbn [fst] in *.
    intros x Hx. apply IH in Hx. apply in_app_or in Hx as [Hx|Hx].
    + apply (step_names r st o st' S) in Hx. rewrite app_assoc. apply in_or_app. left. exact Hx.
    + apply in_or_app. right. apply in_or_app. right. exact Hx.
  - specialize (IH st). destruct (ed_run r st ops) as [s out]. cbn [fst] in *.
    intros x Hx. apply IH in Hx. apply in_app_or in Hx as [Hx|Hx]; apply in_or_app; [left; exact Hx|right].
    apply in_or_app. right. exact Hx.
Qed.

Lemma at_sign_names st keys ss : ed_at_sign st keys = Some ss ->
  incl (names (all_roles (ss_children ss))) (st_names st).
Proof.
  unfold ed_at_sign. destruct (rd_te st) as [te|] eqn:Hte; [|discriminate].
  destruct (rd_sv st), (rd_sexp st), (rd_tsv st), (rd_tsexp st); try discriminate.
  destruct (bytes_eqb (te_name te) name_targets_role); [|discriminate].
  destruct (te_version te), (te_expires te); try discriminate. intro H. inversion H; subst; clear H.
  cbn [ss_children]. unfold st_names, te_names. rewrite Hte. apply incl_appr, incl_refl.
Qed.

Lemma at_sign_keys st keys ss : ed_at_sign st keys = Some ss -> ss_keys ss = dedup keys.
Proof.
  unfold ed_at_sign. destruct (rd_te st) as [te|]; [|discriminate].
  destruct (rd_sv st), (rd_sexp st), (rd_tsv st), (rd_tsexp st); try discriminate.
  destruct (bytes_eqb (te_name te) name_targets_role); [|discriminate].
  destruct (te_version te), (te_expires te); try discriminate. intro H. inversion H; reflexivity.
Qed.

(* ---------------------------------------------------------------------------------------- *)
(* editing program, sign, write, client: what a program's final sign writes, the client loads *)
Theorem program_roundtrip (len_of dig_of : content -> N) (r : root) (ops : list edop) (keys : list N)
        (cfg : config) (now : Z) tg sn ts srv ss :
  ed_at_sign (fst (ed_run r red_new ops)) keys = Some ss ->
  ed_program_sign len_of dig_of r ops keys = Some (tg, sn, ts, srv) ->
  root_verify r 0 (r_sigs r) = true ->
  (forall k, In k keys -> memN k (r_keys r) = true) ->
  Forall small (ops_names ops) ->
  (r_cs r = false -> ~ In (next_root_role r) (ops_names ops)) ->
  r_version r < update_limit fixed (r_version r) (c_max_root_updates cfg) ->
  (tree_depth (ss_children ss) <= c_fuel cfg)%nat ->
  len_of (CTs ts) <= c_max_timestamp_size cfg ->
  (now <= r_expires r)%Z -> (now <= e_tsexp (ss_edit ss))%Z -> (now <= e_sexp (ss_edit ss))%Z -> (now <= e_texp (ss_edit ss))%Z ->
  exists w,
    run_cycle fixed {| cy_cfg := cfg; cy_shipped := CRoot r; cy_srv := srv; cy_now := now; cy_fault := None |} store0
    = (Ok {| rp_root := r; rp_ts := ts; rp_snap := sn; rp_targets := tg |}, w).
Proof.
  intros Hss Hsign Hroot Hkeys Hsmall Hnext Hlim Hfuel Hts He1 He2 He3 He4.
  unfold ed_program_sign in Hsign. rewrite Hss in Hsign.
  assert (incl (names (all_roles (ss_children ss))) (ops_names ops)) as Hincl.
  { intros x Hx. apply (at_sign_names _ _ _ Hss) in Hx. apply run_names in Hx. exact Hx. }
  pose proof (at_sign_keys _ _ _ Hss) as Hk.
  eapply (editor_client_roundtrip_tree len_of dig_of r (ss_edit ss) (ss_dkeys ss) (ss_children ss) (ss_keys ss)); try eassumption.
  - rewrite Hk. apply dedup_NoDup.
  - intros k Hk'. rewrite Hk in Hk'. apply Hkeys. apply dedup_In. exact Hk'.
  - eapply ed_sign_tree_names. exact Hsign.
  - apply Forall_forall. intros n Hn. rewrite Forall_forall in Hsmall. apply Hsmall, Hincl, in_names, Hn.
  - intros Hcs Hin. apply (Hnext Hcs). apply Hincl. exact Hin.
Qed.
