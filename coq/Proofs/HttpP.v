(* Proofs about Model/Http.v (property C18). *)
From Coq Require Import ZifyBool ZifyN ZifyNat.
From ToughV Require Import Model.Base Model.Http.

(* ---------------------------------------------------------------------------------------- *)
(* lists *)

Lemma len_app : forall a b : bytes, len (a ++ b) = len a + len b.
Proof. intros. unfold len. rewrite app_length. lia. Qed.

Lemma len_nil : len [] = 0.
Proof. reflexivity. Qed.

Lemma len_zero : forall b : bytes, len b = 0 -> b = [].
Proof. intros [|x b] H; [reflexivity|]. unfold len in H. cbn [length] in H. lia. Qed.

Lemma skipn_len_app : forall (a b : bytes), skipn (length a) (a ++ b) = b.
Proof. induction a; intros; cbn [length app skipn]; auto. Qed.

Lemma firstn_split_lt : forall (j : N) (b : bytes), j < len b ->
  exists t, b = firstn (N.to_nat j) b ++ t /\ t <> [] /\ len (firstn (N.to_nat j) b) = j.
Proof.
  intros j b H. exists (skipn (N.to_nat j) b). split; [symmetry; apply firstn_skipn|]. split.
  - intro E. pose proof (firstn_skipn (N.to_nat j) b) as F. rewrite E, app_nil_r in F.
    assert (L : length (firstn (N.to_nat j) b) = length b) by (rewrite F; reflexivity).
    rewrite firstn_length in L. unfold len in H. lia.
  - unfold len in *. rewrite firstn_length. lia.
Qed.

(* ---------------------------------------------------------------------------------------- *)
(* the server *)

Lemma cut_spec : forall k p ar body,
  exists b c t, cut k p ar body = RBody p ar b c /\ body = b ++ t
                /\ (c = true -> t = []) /\ (c = false -> t <> [] /\ len b < len body).
Proof.
  intros k p ar body. destruct k as [|j|c0]; cbn [cut].
  - exists body, true, []. rewrite app_nil_r. repeat split; auto; discriminate.
  - destruct (j <? len body) eqn:E.
    + destruct (firstn_split_lt j body) as [t [E1 [E2 E3]]]; [lia|].
      exists (firstn (N.to_nat j) body), false, t. repeat split; auto; try discriminate. lia.
    + exists body, true, []. rewrite app_nil_r. repeat split; auto; discriminate.
  - exists body, true, []. rewrite app_nil_r. repeat split; auto; discriminate.
Qed.

Definition body_src (res : bytes) (p : bool) (range : option N) : bytes :=
  if p then skipn (N.to_nat (match range with Some s => s | None => 0 end)) res else res.

Lemma serve_body : forall res e range p ar b c, serve res e range = RBody p ar b c ->
  is_body e = true /\ ar = e_ar e
  /\ (p = true -> exists s, range = Some s /\ e_ar e = true /\ s < len res)
  /\ (p = false -> range = None \/ e_ar e = false)
  /\ exists t, body_src res p range = b ++ t
               /\ (c = true -> t = []) /\ (c = false -> t <> [] /\ len b < len (body_src res p range)).
Proof.
  intros res e range p ar b c H. unfold serve, is_body in *.
  assert (G : forall k p0 ar0 body, cut k p0 ar0 body = RBody p ar b c ->
            p0 = p /\ ar0 = ar /\ exists t, body = b ++ t /\ (c = true -> t = [])
                                           /\ (c = false -> t <> [] /\ len b < len body)).
  { intros k p0 ar0 body E. destruct (cut_spec k p0 ar0 body) as [b' [c' [t [E1 [E2 [E3 E4]]]]]].
    rewrite E1 in E. inversion E; subst. repeat split; auto. exists t. auto. }
  destruct (e_kind e) as [|j|c0] eqn:K; try discriminate.
  - destruct range as [s|].
    + destruct (e_ar e) eqn:A.
      * destruct (len res <=? s) eqn:L; [discriminate|].
        apply G in H. destruct H as [<- [<- T]]. repeat split; auto; try discriminate.
        intros _. exists s. repeat split; auto. lia.
      * apply G in H. destruct H as [<- [<- T]]. repeat split; auto; discriminate.
    + apply G in H. destruct H as [<- [<- T]]. repeat split; auto; discriminate.
  - destruct range as [s|].
    + destruct (e_ar e) eqn:A.
      * destruct (len res <=? s) eqn:L; [discriminate|].
        apply G in H. destruct H as [<- [<- T]]. repeat split; auto; try discriminate.
        intros _. exists s. repeat split; auto. lia.
      * apply G in H. destruct H as [<- [<- T]]. repeat split; auto; discriminate.
    + apply G in H. destruct H as [<- [<- T]]. repeat split; auto; discriminate.
Qed.

Lemma serve_status : forall res e range c, serve res e range = RStatus c ->
  e_kind e = Status c
  \/ (is_body e = true /\ e_ar e = true /\ c = 416 /\ exists s, range = Some s /\ len res <= s).
Proof.
  intros res e range c H. unfold serve, is_body in *.
  assert (G : forall k p0 ar0 body, cut k p0 ar0 body <> RStatus c).
  { intros k p0 ar0 body E. destruct (cut_spec k p0 ar0 body) as [b' [c' [t [E1 _]]]].
    rewrite E1 in E. discriminate. }
  destruct (e_kind e) as [|j|c0] eqn:K.
  - right. destruct range as [s|]; [|apply G in H; contradiction].
    destruct (e_ar e); [|apply G in H; contradiction].
    destruct (len res <=? s) eqn:L; [|apply G in H; contradiction].
    inversion H. repeat split; auto. exists s. split; auto. lia.
  - right. destruct range as [s|]; [|apply G in H; contradiction].
    destruct (e_ar e); [|apply G in H; contradiction].
    destruct (len res <=? s) eqn:L; [|apply G in H; contradiction].
    inversion H. repeat split; auto. exists s. split; auto. lia.
  - left. inversion H. reflexivity.
Qed.

(* ---------------------------------------------------------------------------------------- *)
(* the client: one step *)

Definition bump (s : state) : state :=
  Build_state (s_try s + 1) (s_next s) (s_rs s) (s_out s) (s_log s).
Definition logged (s : state) : state :=
  Build_state (s_try s) (s_next s) (s_rs s) (s_out s) (s_log s ++ [range_of s]).

Lemma on_retryable_cases : forall fx tries s,
  (on_retryable fx tries s = Again (bump s)
   /\ tries_left fx tries s <> 0 /\ (s_rs s = true \/ s_next s = 0))
  \/ (on_retryable fx tries s = Done ErrOther (bump s)
      /\ (tries_left fx tries s = 0 \/ (s_rs s = false /\ s_next s <> 0))).
Proof.
  intros. unfold on_retryable, may_retry. fold (bump s).
  destruct (negb (tries_left fx tries s =? 0) && (s_rs s || (s_next s =? 0))) eqn:E; [left|right];
    (split; [reflexivity|]); revert E; generalize (tries_left fx tries s) (s_rs s) (s_next s);
    intros n b m E; destruct b; lia.
Qed.

(* complete case analysis of one step *)
Inductive step_shape (fx : fixes18) (tries : N) (res : bytes) (e : entry) (s : state)
  : step_result -> Prop :=
| SS_notfound : forall c, serve res e (range_of s) = RStatus c -> classify c = NotFound ->
    step_shape fx tries res e s (Done ErrNotFound (logged s))
| SS_fatal : forall c, serve res e (range_of s) = RStatus c -> classify c = Fatal ->
    step_shape fx tries res e s (Done ErrOther (logged s))
| SS_5xx : forall c, serve res e (range_of s) = RStatus c -> classify c = Retryable ->
    step_shape fx tries res e s (on_retryable fx tries (logged s))
| SS_not206 : forall ar b c, serve res e (range_of s) = RBody false ar b c ->
    fx_206 fx = true -> range_of s <> None ->
    step_shape fx tries res e s (Done ErrOther (logged s))
| SS_complete : forall p ar b, serve res e (range_of s) = RBody p ar b true ->
    (fx_206 fx = true -> range_of s <> None -> p = true) ->
    step_shape fx tries res e s
      (Done EndedOk (Build_state (s_try s) (s_next s + len b) (s_rs s || ar) (s_out s ++ b)
                                 (s_log s ++ [range_of s])))
| SS_stalled : forall p ar b, serve res e (range_of s) = RBody p ar b false ->
    (fx_206 fx = true -> range_of s <> None -> p = true) ->
    step_shape fx tries res e s
      (on_retryable fx tries (Build_state (s_try s) (s_next s + len b) (s_rs s || ar) (s_out s ++ b)
                                          (s_log s ++ [range_of s]))).

Lemma step_shape_ok : forall fx tries res e s, step_shape fx tries res e s (step fx tries res e s).
Proof.
  intros. unfold step. fold (logged s).
  destruct (serve res e (range_of s)) as [p ar b c|c] eqn:S.
  - cbn [s_try s_next s_rs s_out s_log logged].
    destruct (fx_206 fx && match range_of s with Some _ => true | None => false end && negb p) eqn:G.
    + assert (F : fx_206 fx = true) by (destruct (fx_206 fx); [reflexivity|discriminate G]).
      assert (Rn : range_of s <> None).
      { intro Z. rewrite Z, F in G. discriminate G. }
      assert (P : p = false).
      { destruct p; [|reflexivity]. rewrite F in G. destruct (range_of s); discriminate G. }
      subst p. eapply SS_not206; eauto.
    + assert (Q : fx_206 fx = true -> range_of s <> None -> p = true).
      { intros F N. destruct (range_of s); [|contradiction]. rewrite F in G.
        destruct p; [reflexivity|discriminate]. }
      destruct c; [eapply SS_complete|eapply SS_stalled]; eauto.
  - destruct (classify c) eqn:C; [eapply SS_5xx|eapply SS_notfound|eapply SS_fatal]; eauto.
Qed.

Lemma range_of_none : forall s, range_of s = None <-> s_next s = 0.
Proof. intros. unfold range_of. destruct (s_next s =? 0) eqn:E; split; intros; try discriminate; try lia; auto. Qed.

Lemma range_of_some : forall s k, range_of s = Some k <-> (s_next s = k /\ k <> 0).
Proof.
  intros. unfold range_of. destruct (s_next s =? 0) eqn:E; split; intros H.
  - discriminate.
  - lia.
  - inversion H. lia.
  - destruct H as [-> _]. reflexivity.
Qed.

(* the log grows by exactly the request of this step *)
Lemma step_log : forall fx tries res e s,
  match step fx tries res e s with
  | Done _ s' | Again s' => s_log s' = s_log s ++ [range_of s]
  end.
Proof.
  intros. destruct (step_shape_ok fx tries res e s); try reflexivity.
  - destruct (on_retryable_cases fx tries (logged s)) as [[-> _]|[-> _]]; reflexivity.
  - match goal with |- context [on_retryable ?f ?t ?x] =>
      destruct (on_retryable_cases f t x) as [[-> _]|[-> _]] end; reflexivity.
Qed.

(* the answer of the healthy server always ends the fetch *)
Lemma step_healthy_done : forall fx tries res dflt s,
  exists o s', step fx tries res (healthy dflt) s = Done o s'.
Proof.
  intros. unfold step, serve, healthy. cbn [e_kind e_ar cut].
  destruct (range_of s) as [k|].
  - destruct dflt.
    + destruct (len res <=? k); [cbn; eauto|].
      destruct (fx_206 fx && true && negb true); eauto.
    + destruct (fx_206 fx && true && negb false); eauto.
  - destruct (fx_206 fx && false && negb false); eauto.
Qed.

(* ---------------------------------------------------------------------------------------- *)
(* C18_prefix, C18_complete: what the consumer has received is always the first next_byte bytes of
   the resource *)

Definition Inv (res : bytes) (s : state) : Prop :=
  s_next s = len (s_out s) /\ exists t, res = s_out s ++ t.

Lemma inv_init : forall res, Inv res init.
Proof. intros. split; [reflexivity|]. exists res. reflexivity. Qed.

Lemma inv_bump : forall res s, Inv res s -> Inv res (bump s).
Proof. intros res s H. exact H. Qed.

(* the local condition under which a step preserves the invariant: the repaired client, or a server
   entry that honours ranges whenever the client relies on them *)
Definition honoured (fx : fixes18) (e : entry) (s : state) : Prop :=
  fx_206 fx = true \/ (is_body e = true -> s_rs s = true -> e_ar e = true).

Lemma step_sound : forall fx tries res e s,
  Inv res s -> (s_next s <> 0 -> s_rs s = true) -> honoured fx e s ->
  match step fx tries res e s with
  | Done o s' => Inv res s' /\ (o = EndedOk -> s_out s' = res)
  | Again s' => Inv res s' /\ (s_next s' <> 0 -> s_rs s' = true)
                /\ s_rs s' = (if is_body e then s_rs s || e_ar e else s_rs s)
  end.
Proof.
  intros fx tries res e s [I1 [t I2]] R Hon.
  assert (IL : Inv res (logged s)) by (split; [exact I1|exists t; exact I2]).
  (* a body response extends the delivered prefix *)
  assert (B : forall p ar b c, serve res e (range_of s) = RBody p ar b c ->
              (fx_206 fx = true -> range_of s <> None -> p = true) ->
              is_body e = true /\ ar = e_ar e /\
              exists t', res = (s_out s ++ b) ++ t' /\ (c = true -> t' = [])).
  { intros p ar b c S Q. apply serve_body in S.
    destruct S as [S1 [S2 [S3 [S4 [t' [S5 [S6 S7]]]]]]]. split; [auto|]. split; [auto|].
    exists t'. split; [|auto]. unfold body_src in S5. destruct p.
    - destruct (S3 eq_refl) as [k [Rk [A Lk]]]. rewrite Rk in S5.
      apply range_of_some in Rk. destruct Rk as [Nk _].
      rewrite I2 in S5. assert (N.to_nat k = length (s_out s)) by (unfold len in I1; lia).
      rewrite H, skipn_len_app in S5. rewrite <- app_assoc, <- S5. exact I2.
    - destruct (range_of s) as [k|] eqn:Rk.
      + exfalso. destruct Hon as [F|Hon].
        * assert (false = true) by (apply Q; [auto|discriminate]). discriminate.
        * apply range_of_some in Rk. destruct Rk as [Nk Zk].
          destruct (S4 eq_refl) as [?|A]; [discriminate|].
          rewrite Hon in A; [discriminate|auto|]. apply R. lia.
      + apply range_of_none in Rk. assert (s_out s = []) by (apply len_zero; lia).
        rewrite H. cbn [app]. exact S5. }
  destruct (step_shape_ok fx tries res e s) as [c S C|c S C|c S C|ar b c S F Rk|p ar b S Q|p ar b S Q].
  - split; [exact IL|discriminate].
  - split; [exact IL|discriminate].
  - destruct (on_retryable_cases fx tries (logged s)) as [[-> [_ W]]|[-> _]].
    + split; [exact IL|]. cbn [bump logged s_next s_rs]. split; [intros; apply R; auto|].
      apply serve_status in S. destruct S as [S|[_ [_ [-> _]]]]; [|discriminate].
      unfold is_body. rewrite S. reflexivity.
    + split; [exact IL|discriminate].
  - split; [exact IL|discriminate].
  - destruct (B _ _ _ _ S Q) as [_ [_ [t' [E1 E2]]]]. split.
    + split; cbn [s_next s_out]; [rewrite len_app; lia|exists t'; exact E1].
    + intros _. cbn [s_out]. rewrite (E2 eq_refl), app_nil_r in E1. symmetry. exact E1.
  - destruct (B _ _ _ _ S Q) as [Bd [Ar [t' [E1 _]]]].
    match goal with |- context [on_retryable ?f ?tr ?x] =>
      assert (IX : Inv res x) by (split; cbn [s_next s_out]; [rewrite len_app; lia|exists t'; exact E1]);
      destruct (on_retryable_cases f tr x) as [[-> [_ W]]|[-> _]] end.
    + split; [exact IX|]. cbn [bump s_next s_rs] in *. split; [lia|]. rewrite Bd, Ar. reflexivity.
    + split; [exact IX|discriminate].
Qed.

Lemma run_sound : forall fx tries res dflt script s,
  Inv res s -> (s_next s <> 0 -> s_rs s = true) ->
  (fx_206 fx = true \/ ranges_stable (s_rs s) script dflt = true) ->
  let r := run fx tries res script dflt s in
  Inv res (snd r) /\ (fst r = EndedOk -> s_out (snd r) = res).
Proof.
  intros fx tries res dflt script. induction script as [|e r IH]; intros s I R Hon; cbn [run].
  - assert (H : honoured fx (healthy dflt) s).
    { destruct Hon as [F|St]; [left; exact F|right]. cbn [ranges_stable] in St.
      intros _ Rs. rewrite Rs in St. cbn [healthy e_ar]. destruct dflt; auto. }
    pose proof (step_sound fx tries res (healthy dflt) s I R H) as P.
    destruct (step_healthy_done fx tries res dflt s) as [o [s' E]]. rewrite E in *. exact P.
  - assert (H : honoured fx e s).
    { destruct Hon as [F|St]; [left; exact F|right]. cbn [ranges_stable] in St.
      intros Bd Rs. rewrite Bd, Rs in St. destruct (e_ar e); auto. }
    pose proof (step_sound fx tries res e s I R H) as P.
    destruct (step fx tries res e s) as [o s'|s']; [exact P|].
    destruct P as [I' [R' Rs']]. apply IH; auto.
    destruct Hon as [F|St]; [left; exact F|right]. cbn [ranges_stable] in St. rewrite Rs'.
    destruct (is_body e); [|exact St]. lia.
Qed.

Lemma fetch_prefix : forall tries res script dflt,
  exists tail, res = yielded (fetch fixed18 tries res script dflt) ++ tail.
Proof.
  intros. unfold fetch, yielded.
  destruct (run_sound fixed18 tries res dflt script init (inv_init res)) as [[_ T] _]; auto.
Qed.

Lemma fetch_complete : forall tries res script dflt,
  result (fetch fixed18 tries res script dflt) = EndedOk ->
  yielded (fetch fixed18 tries res script dflt) = res.
Proof.
  intros tries res script dflt. unfold fetch, yielded, result.
  destruct (run_sound fixed18 tries res dflt script init (inv_init res)) as [_ C]; auto.
Qed.

(* the code as it is (no 206 check), against a server that keeps honouring ranges once announced *)
Lemma fetch_prefix_stable : forall fx tries res script dflt,
  ranges_stable false script dflt = true ->
  exists tail, res = yielded (fetch fx tries res script dflt) ++ tail.
Proof.
  intros fx tries res script dflt St. unfold fetch, yielded.
  destruct (run_sound fx tries res dflt script init (inv_init res)) as [[_ T] _]; auto.
Qed.

Lemma fetch_complete_stable : forall fx tries res script dflt,
  ranges_stable false script dflt = true ->
  result (fetch fx tries res script dflt) = EndedOk ->
  yielded (fetch fx tries res script dflt) = res.
Proof.
  intros fx tries res script dflt St. unfold fetch, yielded, result.
  destruct (run_sound fx tries res dflt script init (inv_init res)) as [_ C]; auto.
Qed.

(* pre-repair: a server that announced ranges and then ignores a Range header makes the client hand
   the beginning of the resource to the consumer twice - and report success *)
Lemma fetch_prefix_refuted :
  exists tries res script dflt,
    let r := fetch (Build_fixes18 true false) tries res script dflt in
    result r = EndedOk /\ yielded r <> res /\ ~ exists tail, res = yielded r ++ tail.
Proof.
  exists 2, [1; 2; 3], [Build_entry (Stalled 2) true; Build_entry Full false], false.
  vm_compute. split; [reflexivity|]. split; [discriminate|]. intros [tail H]. discriminate.
Qed.

(* ---------------------------------------------------------------------------------------- *)
(* C18_requests_bounded *)

Lemma step_bound : forall fx tries res e s,
  fx_tries fx = true -> s_try s = N.of_nat (length (s_log s)) ->
  match step fx tries res e s with
  | Done _ _ => True
  | Again s' => s_try s' = N.of_nat (length (s_log s')) /\ N.of_nat (length (s_log s')) < tries
  end.
Proof.
  intros fx tries res e s F T.
  destruct (step_shape_ok fx tries res e s); auto;
    match goal with |- context [on_retryable ?f ?tr ?x] =>
      destruct (on_retryable_cases f tr x) as [[-> [W _]]|[-> _]]; auto end;
    unfold tries_left in W; rewrite F in W; cbn [logged bump s_try s_log] in *;
    rewrite app_length; cbn [length]; lia.
Qed.

Lemma run_bound : forall fx tries res dflt script s,
  fx_tries fx = true -> s_try s = N.of_nat (length (s_log s)) ->
  (s_log s = [] \/ N.of_nat (length (s_log s)) < tries) ->
  N.of_nat (length (s_log (snd (run fx tries res script dflt s)))) <= N.max 1 tries.
Proof.
  intros fx tries res dflt script. induction script as [|e r IH]; intros s F T B; cbn [run].
  - destruct (step_healthy_done fx tries res dflt s) as [o [s' E]].
    pose proof (step_log fx tries res (healthy dflt) s) as L. rewrite E in *. cbn [snd].
    rewrite L, app_length. cbn [length]. destruct B as [->|B]; cbn [length]; lia.
  - pose proof (step_log fx tries res e s) as L. pose proof (step_bound fx tries res e s F T) as P.
    destruct (step fx tries res e s) as [o s'|s'].
    + cbn [snd]. rewrite L, app_length. cbn [length]. destruct B as [->|B]; cbn [length]; lia.
    + destruct P as [T' B']. apply IH; auto.
Qed.

Lemma fetch_bounded : forall fx tries res script dflt, fx_tries fx = true ->
  N.of_nat (length (requests (fetch fx tries res script dflt))) <= N.max 1 tries.
Proof. intros. unfold fetch, requests. apply run_bound; auto. Qed.

(* pre-repair (F11): tries = 1, two answers 500 - two requests *)
Lemma fetch_bounded_refuted :
  exists tries res script dflt, 1 <= tries /\
    N.of_nat (length (requests (fetch original18 tries res script dflt))) = tries + 1.
Proof.
  exists 1, [1; 2; 3], [Build_entry (Status 500) false; Build_entry (Status 500) false], false.
  vm_compute. split; [discriminate|reflexivity].
Qed.

(* pre-repair, for every number of tries: a server that always answers 500 receives tries+1 requests *)
Lemma run_all_500 : forall fx tries res dflt n s,
  fx_tries fx = false -> s_try s + N.of_nat n = tries + 1 -> (0 < n)%nat -> s_next s = 0 ->
  length (s_log (snd (run fx tries res (repeat (Build_entry (Status 500) false) n) dflt s)))
  = (length (s_log s) + n)%nat.
Proof.
  intros fx tries res dflt n. induction n as [|n IH]; intros s F T P Z; [lia|].
  cbn [repeat run]. unfold step, serve. cbn [e_kind]. change (classify 500) with Retryable.
  unfold on_retryable, may_retry, tries_left. rewrite F.
  cbn [s_try s_next s_rs s_out s_log]. rewrite Z. rewrite orb_true_r, andb_true_r.
  destruct n as [|n].
  - assert (E : tries - s_try s =? 0 = true) by lia. rewrite E. cbn [negb snd s_log].
    rewrite app_length. reflexivity.
  - assert (E : tries - s_try s =? 0 = false) by lia. rewrite E. cbn [negb].
    rewrite IH; cbn [s_try s_next s_log]; try lia; auto. rewrite app_length. cbn [length]. lia.
Qed.

Lemma fetch_bounded_refuted_all : forall tries res dflt,
  length (requests (fetch original18 tries res
                          (repeat (Build_entry (Status 500) false) (S (N.to_nat tries))) dflt))
  = S (N.to_nat tries).
Proof.
  intros. unfold fetch, requests. rewrite run_all_500; cbn [init s_try s_next s_log length]; auto; lia.
Qed.

(* ---------------------------------------------------------------------------------------- *)
(* C18_range_only_if_announced *)

Definition announced_before (all : list entry) (n : nat) : Prop :=
  exists j e, (j < n)%nat /\ nth_error all j = Some e /\ is_body e = true /\ e_ar e = true.

Lemma announced_mono : forall all n m, (n <= m)%nat -> announced_before all n -> announced_before all m.
Proof. intros all n m L [j [e [H1 H2]]]. exists j, e. split; [lia|exact H2]. Qed.

Definition log_ok (all : list entry) (l : list (option N)) : Prop :=
  forall i k, nth_error l i = Some (Some k) -> k <> 0 /\ announced_before all i.

Lemma step_rs : forall fx tries res e s,
  match step fx tries res e s with
  | Done _ _ => True
  | Again s' => (s_next s' <> 0 -> s_rs s' = true)
                /\ (s_rs s' = true -> s_rs s = true \/ (is_body e = true /\ e_ar e = true))
  end.
Proof.
  intros fx tries res e s.
  destruct (step_shape_ok fx tries res e s) as [c S C|c S C|c S C|ar b c S F Rk|p ar b S Q|p ar b S Q]; auto.
  - destruct (on_retryable_cases fx tries (logged s)) as [[-> [_ W]]|[-> _]]; auto.
    cbn [bump logged s_next s_rs] in *. split; [lia|auto].
  - apply serve_body in S. destruct S as [S1 [S2 _]].
    match goal with |- context [on_retryable ?f ?tr ?x] =>
      destruct (on_retryable_cases f tr x) as [[-> [_ W]]|[-> _]]; auto end.
    cbn [bump s_next s_rs] in *. split; [lia|]. intros H. subst ar.
    destruct (s_rs s); [left; reflexivity|right; split; auto].
Qed.

Lemma log_ok_snoc : forall all s,
  log_ok all (s_log s) -> (s_next s <> 0 -> s_rs s = true) ->
  (s_rs s = true -> announced_before all (length (s_log s))) ->
  log_ok all (s_log s ++ [range_of s]).
Proof.
  intros all s L R A i k H. destruct (Nat.lt_ge_cases i (length (s_log s))) as [Lt|Ge].
  - rewrite nth_error_app1 in H by exact Lt. apply L; exact H.
  - rewrite nth_error_app2 in H by exact Ge.
    destruct (i - length (s_log s))%nat as [|m] eqn:D; cbn [nth_error] in H.
    + inversion H as [H']. apply range_of_some in H'. destruct H' as [Nk Zk]. split; [exact Zk|].
      assert (i = length (s_log s)) by lia. subst i. apply A, R. lia.
    + destruct m; discriminate.
Qed.

Lemma run_log_ok : forall fx tries res dflt rest pre s,
  length (s_log s) = length pre ->
  log_ok (pre ++ rest) (s_log s) -> (s_next s <> 0 -> s_rs s = true) ->
  (s_rs s = true -> announced_before (pre ++ rest) (length (s_log s))) ->
  log_ok (pre ++ rest) (s_log (snd (run fx tries res rest dflt s))).
Proof.
  intros fx tries res dflt rest. induction rest as [|e r IH]; intros pre s Len L R A; cbn [run].
  - destruct (step_healthy_done fx tries res dflt s) as [o [s' E]].
    pose proof (step_log fx tries res (healthy dflt) s) as SL. rewrite E in *. cbn [snd].
    rewrite SL. apply log_ok_snoc; auto.
  - pose proof (step_log fx tries res e s) as SL. pose proof (step_rs fx tries res e s) as SR.
    destruct (step fx tries res e s) as [o s'|s'].
    + cbn [snd]. rewrite SL. apply log_ok_snoc; auto.
    + destruct SR as [R' A'].
      assert (X : pre ++ e :: r = (pre ++ [e]) ++ r) by (rewrite <- app_assoc; reflexivity).
      rewrite X. apply IH.
      * rewrite SL, !app_length. cbn [length]. lia.
      * rewrite <- X, SL. apply log_ok_snoc; auto.
      * exact R'.
      * rewrite <- X, SL, app_length. cbn [length]. intros H. destruct (A' H) as [Old|[Bd Ar]].
        -- eapply announced_mono; [|apply A; exact Old]. lia.
        -- exists (length pre), e. split; [lia|]. split; [|auto].
           rewrite nth_error_app2 by lia. rewrite Nat.sub_diag. reflexivity.
Qed.

Lemma fetch_range_only_if_announced : forall fx tries res script dflt i k,
  nth_error (requests (fetch fx tries res script dflt)) i = Some (Some k) ->
  0 < k /\ exists j e, (j < i)%nat /\ nth_error script j = Some e /\ is_body e = true /\ e_ar e = true.
Proof.
  intros fx tries res script dflt i k H. unfold fetch, requests in H.
  pose proof (run_log_ok fx tries res dflt script [] init) as P. cbn [app] in P.
  assert (LO : log_ok script (s_log (snd (run fx tries res script dflt init)))).
  { apply P.
    - reflexivity.
    - intros j k' Hj. destruct j; discriminate.
    - cbn [init s_next]. intros C. exfalso. apply C. reflexivity.
    - cbn [init s_rs]. discriminate. }
  destruct (LO i k H) as [Zk An]. split; [lia|exact An].
Qed.

(* ---------------------------------------------------------------------------------------- *)
(* C18_classification *)

Lemma classify_fatal : forall c, 400 <= c < 500 -> c <> 403 -> c <> 404 -> c <> 410 -> classify c = Fatal.
Proof.
  intros c H1 H2 H3 H4. unfold classify.
  destruct ((500 <=? c) && (c <? 600)) eqn:E; [lia|].
  destruct ((c =? 403) || (c =? 404) || (c =? 410)) eqn:E'; [lia|reflexivity].
Qed.

Lemma classify_notfound : forall c, classify c = NotFound <-> (c = 403 \/ c = 404 \/ c = 410).
Proof.
  intros c. unfold classify. split.
  - destruct ((500 <=? c) && (c <? 600)) eqn:E; [discriminate|].
    destruct ((c =? 403) || (c =? 404) || (c =? 410)) eqn:E'; [lia|discriminate].
  - intros [ -> | [ -> | -> ] ]; reflexivity.
Qed.

Lemma run_reaches : forall fx tries res dflt pre e rest s,
  let r := run fx tries res (pre ++ e :: rest) dflt s in
  (length (s_log (snd r)) <= length (s_log s) + length pre)%nat
  \/ exists s', length (s_log s') = (length (s_log s) + length pre)%nat
                /\ r = run fx tries res (e :: rest) dflt s'.
Proof.
  intros fx tries res dflt pre e rest. induction pre as [|a pre IH]; intros s r.
  - right. exists s. split; [cbn [length]; lia|reflexivity].
  - subst r. cbn [app run]. pose proof (step_log fx tries res a s) as SL.
    destruct (step fx tries res a s) as [o s1|s1].
    + left. cbn [snd]. rewrite SL, app_length. cbn [length]. lia.
    + destruct (IH s1) as [Le|[s' [Len E]]].
      * left. rewrite SL, app_length in Le. cbn [length] in *. lia.
      * right. exists s'. split; [|exact E]. rewrite SL, app_length in Len. cbn [length] in *. lia.
Qed.

Lemma step_status : forall fx tries res e s c, e_kind e = Status c ->
  (classify c = NotFound -> step fx tries res e s = Done ErrNotFound (logged s))
  /\ (classify c = Fatal -> step fx tries res e s = Done ErrOther (logged s)).
Proof.
  intros fx tries res e s c K. unfold step, serve. rewrite K. fold (logged s).
  split; intros C; rewrite C; reflexivity.
Qed.

Lemma fetch_classification : forall fx tries res script dflt pre e rest c,
  script = pre ++ e :: rest -> e_kind e = Status c ->
  (length pre < length (requests (fetch fx tries res script dflt)))%nat ->
  let r := fetch fx tries res script dflt in
  ((c = 403 \/ c = 404 \/ c = 410) -> result r = ErrNotFound /\ length (requests r) = S (length pre))
  /\ ((400 <= c < 500 /\ c <> 403 /\ c <> 404 /\ c <> 410) ->
      result r = ErrOther /\ length (requests r) = S (length pre)).
Proof.
  intros fx tries res script dflt pre e rest c -> K Len r. subst r. unfold fetch, requests, result in *.
  destruct (run_reaches fx tries res dflt pre e rest init) as [Le|[s' [L E]]].
  - cbn [init s_log length] in Le. lia.
  - rewrite E. cbn [run]. cbn [init s_log length] in L.
    destruct (step_status fx tries res e s' c K) as [NF FT]. split.
    + intros H. rewrite NF by (apply classify_notfound; exact H). cbn [fst snd logged s_log].
      split; [reflexivity|]. rewrite app_length. cbn [length]. lia.
    + intros [H1 [H2 [H3 H4]]]. rewrite FT by (apply classify_fatal; auto). cbn [fst snd logged s_log].
      split; [reflexivity|]. rewrite app_length. cbn [length]. lia.
Qed.

(* 'file not found' is reported only for an answer 403, 404 or 410 *)
Lemma step_notfound_inv : forall fx tries res e s s',
  step fx tries res e s = Done ErrNotFound s' ->
  exists c, e_kind e = Status c /\ (c = 403 \/ c = 404 \/ c = 410).
Proof.
  intros fx tries res e s s' E. pose proof (step_shape_ok fx tries res e s) as SH. rewrite E in SH.
  inversion SH as [c S C| | c S C H| | |p ar b S Q H].
  - apply serve_status in S. destruct S as [S|[_ [_ [-> _]]]]; [|discriminate].
    exists c. split; [exact S|apply classify_notfound; exact C].
  - destruct (on_retryable_cases fx tries (logged s)) as [[W _]|[W _]]; rewrite W in H; discriminate.
  - match type of H with on_retryable ?f ?tr ?x = _ =>
      destruct (on_retryable_cases f tr x) as [[W _]|[W _]]; rewrite W in H; discriminate end.
Qed.

Lemma run_notfound_inv : forall fx tries res dflt rest s,
  fst (run fx tries res rest dflt s) = ErrNotFound ->
  exists p2 e r2 c, rest = p2 ++ e :: r2 /\ e_kind e = Status c /\ (c = 403 \/ c = 404 \/ c = 410)
    /\ length (s_log (snd (run fx tries res rest dflt s))) = S (length (s_log s) + length p2).
Proof.
  intros fx tries res dflt rest. induction rest as [|e r IH]; intros s H; cbn [run] in *.
  - destruct (step fx tries res (healthy dflt) s) as [o s'|s'] eqn:E; [|discriminate].
    cbn [fst] in H. subst o. apply step_notfound_inv in E. destruct E as [c [K _]]. discriminate.
  - pose proof (step_log fx tries res e s) as SL.
    destruct (step fx tries res e s) as [o s'|s'] eqn:E.
    + cbn [fst] in H. subst o. destruct (step_notfound_inv _ _ _ _ _ _ E) as [c [K C]].
      exists [], e, r, c. cbn [app snd length]. repeat split; auto.
      rewrite SL, app_length. cbn [length]. lia.
    + destruct (IH s' H) as [p2 [e' [r2 [c [E1 [E2 [E3 E4]]]]]]].
      exists (e :: p2), e', r2, c. split; [cbn [app]; rewrite E1; reflexivity|].
      split; [exact E2|]. split; [exact E3|].
      rewrite E4, SL, app_length. cbn [length]. lia.
Qed.

Lemma fetch_notfound_only_if : forall fx tries res script dflt,
  result (fetch fx tries res script dflt) = ErrNotFound ->
  exists pre e rest c, script = pre ++ e :: rest /\ e_kind e = Status c
    /\ (c = 403 \/ c = 404 \/ c = 410)
    /\ length (requests (fetch fx tries res script dflt)) = S (length pre).
Proof.
  intros fx tries res script dflt H. unfold fetch, result, requests in *.
  destruct (run_notfound_inv _ _ _ _ _ _ H) as [p2 [e [r2 [c [E1 [E2 [E3 E4]]]]]]].
  exists p2, e, r2, c. repeat split; auto.
Qed.

(* ---------------------------------------------------------------------------------------- *)
(* C18_recovers: transient failures within the retry budget do not prevent complete delivery *)

Lemma step_transient : forall fx tries res e s,
  Inv res s -> (s_next s = 0 \/ (s_rs s = true /\ s_next s < len res)) ->
  transient e = true -> s_try s + 1 < tries ->
  match step fx tries res e s with
  | Done o s' => o = EndedOk /\ s_out s' = res
  | Again s' => Inv res s' /\ (s_next s' = 0 \/ (s_rs s' = true /\ s_next s' < len res))
                /\ s_try s' = s_try s + 1
  end.
Proof.
  intros fx tries res e s I P T B.
  assert (Hon : honoured fx e s).
  { right. intros Bd _. unfold transient, is_body in *. destruct (e_kind e); auto; discriminate. }
  assert (R : s_next s <> 0 -> s_rs s = true) by (intros; destruct P as [?|[? _]]; [contradiction|auto]).
  pose proof (step_sound fx tries res e s I R Hon) as SS.
  assert (TL : forall x, s_try x = s_try s -> tries_left fx tries x <> 0).
  { intros x Hx. unfold tries_left. rewrite Hx. destruct (fx_tries fx); lia. }
  destruct (step_shape_ok fx tries res e s) as [c S C|c S C|c S C|ar b c S F Rk|p ar b S Q|p ar b S Q].
  - exfalso. apply serve_status in S. unfold transient in T. destruct S as [S|[Bd [Ar [-> [k [Rk Lk]]]]]].
    + rewrite S in T. unfold classify in C. rewrite T in C. discriminate.
    + apply range_of_some in Rk. lia.
  - exfalso. apply serve_status in S. unfold transient in T. destruct S as [S|[Bd [Ar [-> [k [Rk Lk]]]]]].
    + rewrite S in T. unfold classify in C. rewrite T in C. discriminate.
    + apply range_of_some in Rk. lia.
  - destruct (on_retryable_cases fx tries (logged s)) as [[W _]|[W [Z|[Z1 Z2]]]]; rewrite W in *.
    + destruct SS as [I' _]. split; [exact I'|]. cbn [bump logged s_next s_rs s_try]. auto.
    + exfalso. apply (TL (logged s)); auto.
    + exfalso. cbn [logged s_rs s_next] in *. destruct P as [?|[? _]]; [contradiction|congruence].
  - exfalso. apply serve_body in S. destruct S as [Bd [_ [_ [S4 _]]]].
    destruct (S4 eq_refl) as [N|A]; [contradiction|].
    unfold transient, is_body in *. destruct (e_kind e); try discriminate. congruence.
  - destruct SS as [_ C]. split; [reflexivity|apply C; reflexivity].
  - pose proof S as S'. apply serve_body in S'.
    destruct S' as [Bd [Ar [S3 [S4 [t [S5 [_ S7]]]]]]]. destruct (S7 eq_refl) as [Tn Lt].
    assert (A : ar = true).
    { subst ar. unfold transient, is_body in *. destruct (e_kind e); try discriminate; auto. }
    assert (Bound : s_next s + len b < len res).
    { unfold body_src in Lt. destruct p.
      - destruct (S3 eq_refl) as [k [Rk [_ Lk]]]. rewrite Rk in Lt.
        apply range_of_some in Rk. destruct Rk as [Nk _].
        unfold len in *. rewrite skipn_length in Lt. lia.
      - destruct (range_of s) as [k|] eqn:Rk.
        + exfalso. destruct (S4 eq_refl) as [?|A']; [discriminate|]. subst ar. congruence.
        + apply range_of_none in Rk. lia. }
    match goal with |- context [on_retryable ?f ?tr ?x] =>
      destruct (on_retryable_cases f tr x) as [[W _]|[W [Z|[Z1 Z2]]]]; rewrite W in * end.
    + destruct SS as [I' _]. split; [exact I'|]. cbn [bump s_next s_rs s_try]. split; [|reflexivity].
      right. split; [rewrite A; apply orb_true_r|exact Bound].
    + exfalso. eapply TL; [|exact Z]. reflexivity.
    + exfalso. cbn [s_rs] in Z1. rewrite A, orb_true_r in Z1. discriminate.
Qed.

Lemma run_recovers : forall fx tries res script s,
  Inv res s -> (s_next s = 0 \/ (s_rs s = true /\ s_next s < len res)) ->
  Forall (fun e => transient e = true) script -> s_try s + N.of_nat (length script) < tries ->
  let r := run fx tries res script true s in fst r = EndedOk /\ s_out (snd r) = res.
Proof.
  intros fx tries res script. induction script as [|e r IH]; intros s I P F B; cbn [run].
  - assert (Hon : honoured fx (healthy true) s) by (right; reflexivity).
    assert (R : s_next s <> 0 -> s_rs s = true) by (intros; destruct P as [?|[? _]]; [contradiction|auto]).
    pose proof (step_sound fx tries res (healthy true) s I R Hon) as SS.
    destruct (step_shape_ok fx tries res (healthy true) s)
      as [c S C|c S C|c S C|ar b c S F' Rk|p ar b S Q|p ar b S Q].
    + exfalso. apply serve_status in S. destruct S as [S|[_ [_ [-> _]]]]; discriminate.
    + exfalso. apply serve_status in S. destruct S as [S|[_ [_ [_ [k [Rk Lk]]]]]]; [discriminate|].
      apply range_of_some in Rk. lia.
    + exfalso. apply serve_status in S. destruct S as [S|[_ [_ [-> _]]]]; discriminate.
    + exfalso. apply serve_body in S. destruct S as [_ [_ [_ [S4 _]]]].
      destruct (S4 eq_refl) as [?|?]; [contradiction|discriminate].
    + cbn [fst snd]. destruct SS as [_ C]. split; [reflexivity|apply C; reflexivity].
    + exfalso. unfold serve, healthy in S. cbn [e_kind e_ar cut] in S.
      destruct (range_of s); [destruct (len res <=? n)|]; discriminate.
  - inversion F as [|? ? Te Fr]; subst. cbn [length] in B.
    pose proof (step_transient fx tries res e s I P Te) as ST.
    destruct (step fx tries res e s) as [o s'|s'].
    + cbn [fst snd]. apply ST. lia.
    + destruct ST as [I' [P' T']]; [lia|]. apply IH; auto. lia.
Qed.

Lemma fetch_recovers : forall fx tries res script,
  Forall (fun e => transient e = true) script -> N.of_nat (length script) < tries ->
  result (fetch fx tries res script true) = EndedOk
  /\ yielded (fetch fx tries res script true) = res.
Proof.
  intros. unfold fetch, result, yielded. apply run_recovers; auto using inv_init.
Qed.
