(* Proofs about Model/Schema.v: what is used is what was signed, role tags keep roles apart, nothing
   is lost of a document whose every level is covered (and what is lost otherwise: finding F7),
   member order does not matter. *)
From Coq Require Import String Ascii.
From ToughV Require Import Model.Base Model.Json Model.CJson Model.Keys Model.TName Model.Schema
     Proofs.BaseP Proofs.CJsonP Proofs.CJsonInjP.
From Coq Require Import ZifyBool ZifyN ZifyNat Permutation.

(* ---------------------------------------------------------------------------------------- *)
(* the formatter of the implementation computes the specification (C11), ASCII documents *)
Lemma canon_is_cs v : canon v = cs v.
Proof. unfold canon. apply canon_impl_is_spec; auto. Qed.

Lemma obytes_eqb_true a b : obytes_eqb a (Some b) = true <-> a = Some b.
Proof.
  destruct a as [x|]; cbn [obytes_eqb]; split; intro H; try discriminate.
  - apply bytes_eqb_eq in H. subst. reflexivity.
  - inversion H. apply bytes_eqb_refl.
Qed.

Lemma accepts_spec sch b j :
  accepts sch b j = true <-> exists r, project sch j = Some r /\ cs r = Some b.
Proof.
  unfold accepts. destruct (project sch j) as [r|]; split.
  - intro H. exists r. split; [reflexivity|]. rewrite <- canon_is_cs. apply obytes_eqb_true, H.
  - intros (r' & E & H). inversion E; subst. apply obytes_eqb_true. rewrite canon_is_cs. exact H.
  - discriminate.
  - intros (r' & E & _). discriminate.
Qed.

(* ---------------------------------------------------------------------------------------- *)
(* induction on schemas *)
Section schema_ind2.
  Variable P : schema -> Prop.
  Hypothesis HAny : P SAny.
  Hypothesis HStr : P SStr.
  Hypothesis HBool : P SBool.
  Hypothesis HU64 : forall nz, P (SU64 nz).
  Hypothesis HHex : P SHex.
  Hypothesis HDate : P SDate.
  Hypothesis HEnum : forall l, P (SEnum l).
  Hypothesis HArr : forall e, P e -> P (SArr e).
  Hypothesis HMap : forall k v, P v -> P (SMap k v).
  Hypothesis HObj : forall tag fields r, Forall (fun f => P (snd (snd f))) fields -> P (SObj tag fields r).
  Fixpoint schema_ind2 (s : schema) : P s :=
    match s with
    | SAny => HAny | SStr => HStr | SBool => HBool | SU64 nz => HU64 nz | SHex => HHex
    | SDate => HDate | SEnum l => HEnum l
    | SArr e => HArr e (schema_ind2 e)
    | SMap k v => HMap k v (schema_ind2 v)
    | SObj tag fields r =>
        HObj tag fields r
             ((fix go (fs : list (bytes * (fkind * schema))) : Forall (fun f => P (snd (snd f))) fs :=
                 match fs with
                 | [] => Forall_nil _
                 | f :: t => Forall_cons _ (schema_ind2 (snd (snd f))) (go t)
                 end) fields)
    end.
End schema_ind2.

(* named versions of the nested loops *)
Section Loops.
  Variable m : members.
  Fixpoint known_out_s (fs : list (bytes * (fkind * schema))) : option members :=
    match fs with
    | [] => Some []
    | f :: t =>
        match field_out (project (snd (snd f))) (fst (snd f)) (fst f) m, known_out_s t with
        | Some a, Some b => Some (a ++ b)
        | _, _ => None
        end
    end.
  Fixpoint fields_covered_s (fs : list (bytes * (fkind * schema))) : bool :=
    match fs with
    | [] => true
    | f :: t => field_covered (well_covered (snd (snd f))) (fst (snd f)) (fst f) m
                && fields_covered_s t
    end.
End Loops.
Definition known_out fs m := known_out_s m fs.
Definition fields_covered fs m := fields_covered_s m fs.

Lemma known_out_cons f t m : known_out (f :: t) m =
  match field_out (project (snd (snd f))) (fst (snd f)) (fst f) m, known_out t m with
  | Some a, Some b => Some (a ++ b)
  | _, _ => None
  end.
Proof. reflexivity. Qed.
Lemma fields_covered_cons f t m : fields_covered (f :: t) m =
  field_covered (well_covered (snd (snd f))) (fst (snd f)) (fst f) m
  && fields_covered t m.
Proof. reflexivity. Qed.

Lemma project_obj tag fields r m :
  project (SObj tag fields r) (JObj m) =
  match known_out fields m, rest_out r (map fst fields) m with
  | Some known, Some rst => Some (JObj (tag_member tag ++ known ++ rst))
  | _, _ => None
  end.
Proof. reflexivity. Qed.

Lemma project_obj_shape tag fields r j out :
  project (SObj tag fields r) j = Some out -> exists m, j = JObj m.
Proof. destruct j; cbn [project]; try discriminate. intros _. eexists. reflexivity. Qed.

Lemma well_covered_obj tag fields r m :
  well_covered (SObj tag fields r) (JObj m) =
  nodup_bytes (map fst m) && nodup_bytes (map fst fields) && negb (mem_bytes k_type (map fst fields))
  && fields_covered fields m && rest_covered tag r (map fst fields) m.
Proof. reflexivity. Qed.

(* ---------------------------------------------------------------------------------------- *)
(* byte-string membership *)
Lemma bytes_eqb_sym a b : bytes_eqb a b = bytes_eqb b a.
Proof.
  destruct (bytes_eqb a b) eqn:E1, (bytes_eqb b a) eqn:E2; try reflexivity.
  - apply bytes_eqb_eq in E1. subst. rewrite bytes_eqb_refl in E2. discriminate.
  - apply bytes_eqb_eq in E2. subst. rewrite bytes_eqb_refl in E1. discriminate.
Qed.

Lemma mem_bytes_In k l : mem_bytes k l = true <-> In k l.
Proof.
  induction l as [|x l IH]; cbn [mem_bytes In]; split; intro H; try discriminate; try contradiction.
  - apply orb_true_iff in H as [H|H]; [left; apply bytes_eqb_eq in H; auto|right; apply IH, H].
  - apply orb_true_iff. destruct H as [H|H]; [left; subst; apply bytes_eqb_refl|right; apply IH, H].
Qed.

Lemma mem_bytes_notin k l : mem_bytes k l = false -> ~ In k l.
Proof. intros H Hin. apply mem_bytes_In in Hin. congruence. Qed.

Lemma nodup_bytes_NoDup l : nodup_bytes l = true -> NoDup l.
Proof.
  induction l as [|x l IH]; cbn [nodup_bytes]; intro H; constructor.
  - apply andb_true_iff in H as [H _]. apply negb_true_iff in H. apply mem_bytes_notin, H.
  - apply andb_true_iff in H as [_ H]. apply IH, H.
Qed.

(* ---------------------------------------------------------------------------------------- *)
(* keys of what project writes *)
Lemma field_out_keys pr kind name m a : field_out pr kind name m = Some a ->
  forall e, In e a -> fst e = name.
Proof.
  unfold field_out. intros H e He.
  destruct (occurrences name m) as [|v [|w t]]; [| |discriminate].
  - destruct kind; inversion H; subst; contradiction.
  - assert (G : forall o, (match pr v with
                           | Some v' => match kind, v with FDefEmpty, JObj [] => Some [] | _, _ => Some [(name, v')] end
                           | None => None end) = Some o -> In e o -> fst e = name).
    { intros o Ho Hin. destruct (pr v) as [v'|]; [|discriminate].
      destruct kind; try (inversion Ho; subst; destruct Hin as [<-|[]]; reflexivity).
      destruct v as [| | | | | |[|x y]]; inversion Ho; subst; try contradiction;
        destruct Hin as [<-|[]]; reflexivity. }
    destruct kind; try (exact (G _ H He)).
    destruct v; try (exact (G _ H He)). inversion H; subst. contradiction.
Qed.

Lemma known_out_keys fs m known : known_out fs m = Some known ->
  forall e, In e known -> In (fst e) (map fst fs).
Proof.
  revert known; induction fs as [|f fs IH]; intros known H e He.
  - inversion H; subst. contradiction.
  - rewrite known_out_cons in H. destruct (field_out _ _ _ m) as [a|] eqn:Fa; [|discriminate].
    destruct (known_out fs m) as [b|]; [|discriminate]. inversion H; subst.
    apply in_app_or in He as [He|He].
    + left. symmetry. exact (field_out_keys _ _ _ _ _ Fa e He).
    + right. exact (IH _ eq_refl e He).
Qed.

Definition tagged (s : schema) (t : bytes) : Prop :=
  exists fields r, s = SObj (Some t) fields r
                   /\ mem_bytes k_type (map fst fields) = false /\ r <> RKeep false.

Lemma rest_out_no_type r names m rst : r <> RKeep false -> rest_out r names m = Some rst ->
  ~ In k_type (map fst rst).
Proof.
  intros Hr H. unfold rest_out in H. destruct r as [|[|]|].
  - inversion H. intros [].
  - inversion H. intro Hin. apply in_map_iff in Hin as (e & Ee & Hin).
    apply filter_In in Hin as [_ Hf]. rewrite Ee, bytes_eqb_refl in Hf. discriminate.
  - contradiction.
  - destruct (find _ _) as [kv|] eqn:F; [|discriminate].
    destruct (str_array (snd kv)); [|discriminate]. inversion H. cbn [map fst].
    apply find_some in F as [_ F]. intros [E|[]]. rewrite E in F. vm_compute in F. discriminate.
Qed.

Lemma project_tagged_shape s t j out : tagged s t -> project s j = Some out ->
  exists rest, out = JObj ((k_type, JStr t) :: rest) /\ ~ In k_type (map fst rest).
Proof.
  intros (fields & r & -> & Hf & Hr) H. destruct (project_obj_shape _ _ _ _ _ H) as [m ->].
  rewrite project_obj in H. destruct (known_out fields m) as [known|] eqn:K; [|discriminate].
  destruct (rest_out r (map fst fields) m) as [rst|] eqn:R; [|discriminate].
  inversion H; subst. cbn [tag_member app]. exists (known ++ rst). split; [reflexivity|].
  rewrite map_app. intro Hin. apply in_app_or in Hin as [Hin|Hin].
  - apply in_map_iff in Hin as (e & Ee & Hin). pose proof (known_out_keys _ _ _ K e Hin) as Hk.
    rewrite Ee in Hk. apply (mem_bytes_notin _ _ Hf), Hk.
  - exact (rest_out_no_type _ _ _ _ Hr R Hin).
Qed.

(* ---------------------------------------------------------------------------------------- *)
(* C12_used_is_signed *)
Theorem used_is_signed sch b j : accepts sch b j = true ->
  exists r, project sch j = Some r /\ canon r = Some b.
Proof. intro H. apply accepts_spec in H as (r & E & C). exists r. rewrite canon_is_cs. auto. Qed.

Theorem same_signed_same_content sch b j1 j2 :
  accepts sch b j1 = true -> accepts sch b j2 = true ->
  exists r1 r2, project sch j1 = Some r1 /\ project sch j2 = Some r2 /\ canon r1 = canon r2.
Proof.
  intros H1 H2. apply used_is_signed in H1 as (r1 & E1 & C1). apply used_is_signed in H2 as (r2 & E2 & C2).
  exists r1, r2. rewrite C1, C2. auto.
Qed.

(* ---------------------------------------------------------------------------------------- *)
(* C12_roles_disjoint *)
Theorem tagged_disjoint s1 s2 t1 t2 b j1 j2 :
  tagged s1 t1 -> tagged s2 t2 -> t1 <> t2 ->
  accepts s1 b j1 = true -> accepts s2 b j2 = true -> False.
Proof.
  intros T1 T2 Ne H1 H2.
  apply accepts_spec in H1 as (r1 & E1 & C1). apply accepts_spec in H2 as (r2 & E2 & C2).
  destruct (project_tagged_shape _ _ _ _ T1 E1) as (rest1 & -> & N1).
  destruct (project_tagged_shape _ _ _ _ T2 E2) as (rest2 & -> & N2).
  pose proof (cs_obj_head_member _ _ _ _ _ _ N1 N2 C1 C2) as E. cbn [canon_spec] in E.
  assert (Q : quote t1 = quote t2) by congruence. apply quote_inj in Q. contradiction.
Qed.

Lemma role_schemas_tagged s : In s role_schemas ->
  exists t, tagged s t /\ In (s, t) [(root_schema, bs "root"); (timestamp_schema, bs "timestamp");
                                      (snapshot_schema, bs "snapshot"); (targets_schema, bs "targets")].
Proof.
  intros [<-|[<-|[<-|[<-|[]]]]]; eexists; (split; [eexists _, _; split; [reflexivity|split; [reflexivity|discriminate]]|]);
    cbn [In]; auto.
Qed.

Theorem roles_disjoint s1 s2 b j1 j2 :
  In s1 role_schemas -> In s2 role_schemas -> s1 <> s2 ->
  accepts s1 b j1 = true -> accepts s2 b j2 = true -> False.
Proof.
  intros I1 I2 Ne H1 H2.
  destruct (role_schemas_tagged _ I1) as (t1 & T1 & P1). destruct (role_schemas_tagged _ I2) as (t2 & T2 & P2).
  apply (tagged_disjoint s1 s2 t1 t2 b j1 j2 T1 T2); try assumption.
  intro Et. subst t2. apply Ne.
  cbn [In] in P1, P2.
  repeat (destruct P1 as [P1|P1]; [inversion P1; subst; clear P1|]); try contradiction;
    repeat (destruct P2 as [P2|P2]; [inversion P2; subst; clear P2|]); try contradiction;
    try reflexivity; exfalso;
    match goal with H : bs _ = bs _ |- _ => vm_compute in H; discriminate end.
Qed.

(* ---------------------------------------------------------------------------------------- *)
(* C12_lossless *)
Definition cmap (m : members) : list (bytes * option bytes) := map (fun kv => (fst kv, cs (snd kv))) m.

Fixpoint seq_entries (c : list (bytes * option bytes)) : option (list (bytes * bytes)) :=
  match c with
  | [] => Some []
  | (k, ob) :: t => match ob, seq_entries t with
                    | Some b, Some r => Some ((k, b) :: r)
                    | _, _ => None
                    end
  end.

Lemma smembers_cmap m : smembers m = seq_entries (cmap m).
Proof.
  induction m as [|[k x] m IH]; [reflexivity|]. cbn [spec_members cmap map seq_entries fst snd].
  fold (cmap m). rewrite IH. reflexivity.
Qed.

Lemma seq_entries_perm c1 c2 : Permutation c1 c2 ->
  match seq_entries c1, seq_entries c2 with
  | Some e1, Some e2 => Permutation e1 e2
  | None, None => True
  | _, _ => False
  end.
Proof.
  induction 1 as [|[k [b|]] a c P IH|[k1 [b1|]] [k2 [b2|]] a|a c d P1 IH1 P2 IH2]; cbn [seq_entries].
  - constructor.
  - destruct (seq_entries a), (seq_entries c); try exact I; try contradiction. apply perm_skip, IH.
  - destruct (seq_entries a), (seq_entries c); try exact I; contradiction.
  - destruct (seq_entries a); [apply perm_swap|exact I].
  - destruct (seq_entries a); exact I.
  - destruct (seq_entries a); exact I.
  - destruct (seq_entries a); exact I.
  - destruct (seq_entries a), (seq_entries c), (seq_entries d); try exact I; try contradiction.
    eapply perm_trans; eassumption.
Qed.

Lemma seq_entries_keys c : forall es, seq_entries c = Some es -> map fst es = map fst c.
Proof.
  induction c as [|[k [b|]] c IH]; intros es H; cbn [seq_entries] in H; try discriminate.
  - inversion H. reflexivity.
  - destruct (seq_entries c) as [r|]; [|discriminate]. inversion H; subst. cbn [map fst]. f_equal.
    apply IH. reflexivity.
Qed.

Lemma cmap_keys m : map fst (cmap m) = map fst m.
Proof. unfold cmap. rewrite map_map. reflexivity. Qed.

Lemma cs_obj_perm m1 m2 : Permutation (cmap m1) (cmap m2) -> NoDup (map fst m1) ->
  cs (JObj m1) = cs (JObj m2).
Proof.
  intros P N. rewrite !spec_obj, !smembers_cmap. pose proof (seq_entries_perm _ _ P) as H.
  destruct (seq_entries (cmap m1)) as [e1|] eqn:E1, (seq_entries (cmap m2)) as [e2|]; try contradiction;
    [|reflexivity].
  rewrite (sort_members_order_independent e1 e2 H); [reflexivity|].
  rewrite (seq_entries_keys _ _ E1), cmap_keys. exact N.
Qed.

Lemma cmap_app a b : cmap (a ++ b) = cmap a ++ cmap b.
Proof. apply map_app. Qed.

(* association lists without duplicate keys *)
Lemma find_none_occurrences n m : find_assoc n m = None -> occurrences n m = [].
Proof.
  unfold occurrences. induction m as [|[k v] m IH]; cbn [find_assoc filter map fst]; [reflexivity|].
  destruct (bytes_eqb n k); [discriminate|exact IH].
Qed.

Lemma find_some_occurrences n m v : NoDup (map fst m) -> find_assoc n m = Some v -> occurrences n m = [v].
Proof.
  unfold occurrences. induction m as [|[k x] m IH]; cbn [find_assoc filter map fst]; [discriminate|].
  intros N H. inversion N as [|? ? Nk Nm]; subst. destruct (bytes_eqb n k) eqn:E.
  - inversion H; subst. cbn [map snd]. f_equal. apply bytes_eqb_eq in E. subst k.
    apply (find_none_occurrences n m). apply find_assoc_notin, Nk.
  - apply IH; assumption.
Qed.

Definition not_named (n : bytes) (kv : bytes * jv) : bool := negb (bytes_eqb (fst kv) n).

Lemma filter_absent n m : find_assoc n m = None -> filter (not_named n) m = m.
Proof.
  induction m as [|[k v] m IH]; cbn [find_assoc filter]; [reflexivity|]. unfold not_named at 1. cbn [fst].
  rewrite (bytes_eqb_sym k n). destruct (bytes_eqb n k); [discriminate|]. cbn [negb]. intro H. f_equal. apply IH, H.
Qed.

Lemma perm_extract n m v : NoDup (map fst m) -> find_assoc n m = Some v ->
  Permutation m ((n, v) :: filter (not_named n) m).
Proof.
  induction m as [|[k x] m IH]; cbn [find_assoc filter map fst]; [discriminate|].
  intros N H. inversion N as [|? ? Nk Nm]; subst. unfold not_named at 1. cbn [fst].
  rewrite (bytes_eqb_sym k n). destruct (bytes_eqb n k) eqn:E; cbn [negb].
  - inversion H; subst. apply bytes_eqb_eq in E. subst k.
    rewrite filter_absent by (apply find_assoc_notin, Nk). reflexivity.
  - rewrite perm_swap. apply perm_skip. apply IH; assumption.
Qed.

Lemma NoDup_filter_keys (f : bytes * jv -> bool) m : NoDup (map fst m) -> NoDup (map fst (filter f m)).
Proof.
  induction m as [|kv m IH]; cbn [filter map]; intro N; [constructor|].
  inversion N as [|? ? Nk Nm]; subst. destruct (f kv); [|apply IH, Nm].
  cbn [map]. constructor; [|apply IH, Nm]. intro Hin. apply Nk.
  apply in_map_iff in Hin as (e & Ee & Hin). apply filter_In in Hin as [Hin _].
  apply in_map_iff. exists e. auto.
Qed.

Lemma unknown_nil m : unknown_members [] m = m.
Proof. unfold unknown_members. induction m as [|kv m IH]; cbn [filter mem_bytes negb]; [reflexivity|]. f_equal. exact IH. Qed.

Lemma unknown_cons n names m :
  unknown_members (n :: names) m = filter (not_named n) (unknown_members names m).
Proof.
  unfold unknown_members. induction m as [|kv m IH]; [reflexivity|]. cbn [filter].
  change (mem_bytes (fst kv) (n :: names)) with (bytes_eqb (fst kv) n || mem_bytes (fst kv) names).
  rewrite IH.
  destruct (bytes_eqb (fst kv) n) eqn:E, (mem_bytes (fst kv) names); cbn [orb negb filter];
    unfold not_named; rewrite ?E; reflexivity.
Qed.

Lemma find_unknown n names m : ~ In n names ->
  find_assoc n (unknown_members names m) = find_assoc n m.
Proof.
  intro Nn. unfold unknown_members. induction m as [|[k v] m IH]; [reflexivity|]. cbn [filter find_assoc fst].
  destruct (mem_bytes k names) eqn:Mk; cbn [negb].
  - destruct (bytes_eqb n k) eqn:E; [|exact IH]. apply bytes_eqb_eq in E. subst k.
    apply mem_bytes_In in Mk. contradiction.
  - cbn [find_assoc]. destruct (bytes_eqb n k); [reflexivity|exact IH].
Qed.

Lemma field_out_absent pr kind n m : occurrences n m = [] -> kind <> FReq -> field_out pr kind n m = Some [].
Proof. unfold field_out. intros -> H. destruct kind; [contradiction| |]; reflexivity. Qed.

Lemma field_out_present pr kind n m v v' : occurrences n m = [v] -> pr v = Some v' ->
  (kind = FOpt -> v <> JNull) -> (kind = FDefEmpty -> v <> JObj []) ->
  field_out pr kind n m = Some [(n, v')].
Proof.
  unfold field_out. intros -> Hp H1 H2. destruct kind.
  - rewrite Hp. reflexivity.
  - destruct v; try (rewrite Hp; reflexivity). exfalso. apply H1; reflexivity.
  - rewrite Hp. destruct v as [| | | | | |[|x y]]; try reflexivity. exfalso. apply H2; reflexivity.
Qed.

Definition lossless_at (s : schema) : Prop :=
  forall j, well_covered s j = true -> exists r, project s j = Some r /\ cs r = cs j.

Lemma known_core fields : Forall (fun f => lossless_at (snd (snd f))) fields ->
  forall m, NoDup (map fst m) -> NoDup (map fst fields) -> fields_covered fields m = true ->
  exists known, known_out fields m = Some known
                /\ Permutation (cmap (known ++ unknown_members (map fst fields) m)) (cmap m).
Proof.
  induction 1 as [|[n [kind s]] fields Hf Hfs IH]; intros m Nm Nf C.
  - exists []. split; [reflexivity|]. cbn [map app]. rewrite unknown_nil. reflexivity.
  - cbn [map fst] in Nf. inversion Nf as [|? ? Nn Nfs]; subst.
    rewrite fields_covered_cons in C. cbn [fst snd] in C. apply andb_true_iff in C as [Cf Cfs].
    destruct (IH m Nm Nfs Cfs) as (known_t & Kt & Pt). rewrite known_out_cons. cbn [fst snd map]. rewrite Kt.
    rewrite unknown_cons. set (U := unknown_members (map fst fields) m) in *.
    assert (NU : NoDup (map fst U)) by (apply NoDup_filter_keys, Nm).
    unfold field_covered in Cf. destruct (find_assoc n m) as [v|] eqn:Fn.
    + apply andb_true_iff in Cf as [Wv Ck]. unfold kind_ok in Ck. destruct (Hf v Wv) as (v' & Pv & Cv). cbn [snd] in Pv, Cv.
      rewrite (field_out_present _ kind n m v v' (find_some_occurrences _ _ _ Nm Fn) Pv).
      * eexists. split; [reflexivity|]. cbn [app].
        change (cmap ((n, v') :: (known_t ++ filter (not_named n) U)))
          with ((n, cs v') :: cmap (known_t ++ filter (not_named n) U)).
        rewrite Cv. rewrite cmap_app. rewrite cmap_app in Pt.
        assert (FU : find_assoc n U = Some v) by (unfold U; rewrite find_unknown; assumption).
        pose proof (perm_extract n U v NU FU) as PU.
        apply (Permutation_map (fun kv => (fst kv, cs (snd kv)))) in PU. fold (cmap U) in PU.
        cbn [map fst snd] in PU. fold (cmap (filter (not_named n) U)) in PU.
        rewrite <- Pt. rewrite PU. apply Permutation_middle.
      * intros -> ->. discriminate.
      * intros -> ->. discriminate.
    + rewrite (field_out_absent _ kind n m (find_none_occurrences _ _ Fn)) by (intros ->; discriminate).
      eexists. split; [reflexivity|]. cbn [app].
      rewrite filter_absent by (unfold U; rewrite find_unknown; assumption). exact Pt.
Qed.

Lemma str_array_id v v' : str_array v = Some v' -> v' = v.
Proof. destruct v; cbn; try discriminate. destruct (forallb is_str l); [|discriminate]. intro H. inversion H. reflexivity. Qed.

Lemma rest_core tag r names m known :
  NoDup (map fst m) -> ~ In k_type names -> rest_covered tag r names m = true ->
  exists rst, rest_out r names m = Some rst
              /\ Permutation (cmap (tag_member tag ++ known ++ rst)) (cmap (known ++ unknown_members names m)).
Proof.
  intros Nm Nt C. unfold rest_covered in C. unfold rest_out.
  set (U := unknown_members names m) in *.
  assert (NU : NoDup (map fst U)) by (apply NoDup_filter_keys, Nm).
  destruct r as [|skip|].
  - apply andb_true_iff in C as [Ct Cu]. destruct tag; [discriminate|]. destruct U; [|discriminate].
    eexists. split; [reflexivity|]. reflexivity.
  - destruct tag as [t|].
    + apply andb_true_iff in C as [Cs Ct]. subst skip.
      destruct (find_assoc k_type m) as [[| | | |t'| |]|] eqn:Ft; try discriminate.
      apply bytes_eqb_eq in Ct. subst t'.
      eexists. split; [reflexivity|]. cbn [tag_member app].
      assert (FU : find_assoc k_type U = Some (JStr t)) by (unfold U; rewrite find_unknown; assumption).
      pose proof (perm_extract k_type U _ NU FU) as PU.
      rewrite !cmap_app. change (cmap ((k_type, JStr t) :: known ++ ?x)) with ((k_type, cs (JStr t)) :: cmap (known ++ x)).
      rewrite cmap_app.
      apply (Permutation_map (fun kv => (fst kv, cs (snd kv)))) in PU. fold (cmap U) in PU.
      cbn [map fst snd] in PU. rewrite PU. apply Permutation_middle.
    + apply negb_true_iff in C. subst skip. eexists. split; [reflexivity|]. reflexivity.
  - apply andb_true_iff in C as [Ct Cu]. destruct tag; [discriminate|].
    destruct U as [|kv [|]]; try discriminate. apply andb_true_iff in Cu as [Ck Ca].
    cbn [find]. rewrite Ck. destruct (str_array (snd kv)) as [v'|] eqn:Sa; [|discriminate].
    apply str_array_id in Sa. subst v'. eexists. split; [reflexivity|].
    cbn [tag_member app]. destruct kv. reflexivity.
Qed.

Lemma map_opt_lossless (f : jv -> option jv) l :
  Forall (fun x => exists r, f x = Some r /\ cs r = cs x) l ->
  exists l', map_opt f l = Some l' /\ Forall2 (fun a b => cs a = cs b) l' l.
Proof.
  induction 1 as [|x l (r & Fx & Cx) Hl (l' & Ml & F2)]; cbn [map_opt].
  - exists []. split; [reflexivity|constructor].
  - rewrite Fx, Ml. exists (r :: l'). split; [reflexivity|constructor; assumption].
Qed.

Lemma map_opt_snd_lossless (f : jv -> option jv) m :
  Forall (fun kv => exists r, f (snd kv) = Some r /\ cs r = cs (snd kv)) m ->
  exists m', map_opt_snd f m = Some m'
             /\ Forall2 (fun a b => fst a = fst b /\ cs (snd a) = cs (snd b)) m' m.
Proof.
  unfold map_opt_snd. induction 1 as [|[k x] m (r & Fx & Cx) Hm (m' & Mm & F2)]; cbn [map_opt].
  - exists []. split; [reflexivity|constructor].
  - cbn [fst snd] in *. rewrite Fx, Mm. exists ((k, r) :: m'). split; [reflexivity|].
    constructor; [split; [reflexivity|exact Cx]|exact F2].
Qed.

Lemma leaf_lossless s : (forall j r, project s j = Some r -> r = j) ->
  (forall j, well_covered s j = match project s j with Some _ => true | None => false end) ->
  lossless_at s.
Proof.
  intros Hid Hw j W. rewrite Hw in W. destruct (project s j) as [r|] eqn:E; [|discriminate].
  exists r. split; [reflexivity|]. rewrite (Hid _ _ E). reflexivity.
Qed.

Theorem lossless s : lossless_at s.
Proof.
  induction s as [| | | nz | | | l | e IH | kk v IH | tag fields r IH] using schema_ind2.
  - intros j _. exists j. split; reflexivity.
  - apply leaf_lossless; [|reflexivity]. intros [] r H; cbn [project] in H; inversion H; reflexivity.
  - apply leaf_lossless; [|reflexivity]. intros [] r H; cbn [project] in H; inversion H; reflexivity.
  - apply leaf_lossless; [|reflexivity]. intros [] r H; cbn [project] in H; try discriminate.
    destruct (in_u64 nz z); inversion H; reflexivity.
  - apply leaf_lossless; [|reflexivity]. intros [] r H; cbn [project] in H; try discriminate.
    destruct (hex_decode s); inversion H; reflexivity.
  - apply leaf_lossless; [|reflexivity]. intros [] r H; cbn [project] in H; try discriminate.
    destruct (date_ok s); inversion H; reflexivity.
  - apply leaf_lossless; [|reflexivity]. intros [] r H; cbn [project] in H; try discriminate.
    destruct (mem_bytes s l); inversion H; reflexivity.
  - intros j W. destruct j as [| | | | | l |]; cbn [well_covered] in W; try discriminate.
    assert (F : Forall (fun x => exists r, project e x = Some r /\ cs r = cs x) l).
    { apply Forall_forall. intros x Hx. apply IH. rewrite forallb_forall in W. apply W, Hx. }
    destruct (map_opt_lossless _ _ F) as (l' & Ml & F2). cbn [project]. rewrite Ml.
    exists (JArr l'). split; [reflexivity|]. apply canon_spec_arr_ext. exact F2.
  - intros j W. destruct j as [| | | | | | m]; cbn [well_covered] in W; try discriminate.
    apply andb_true_iff in W as [Wk Wv].
    assert (F : Forall (fun kv => exists r, project v (snd kv) = Some r /\ cs r = cs (snd kv)) m).
    { apply Forall_forall. intros x Hx. apply IH. rewrite forallb_forall in Wv. apply Wv, Hx. }
    destruct (map_opt_snd_lossless _ _ F) as (m' & Mm & F2). cbn [project]. rewrite Wk, Mm.
    exists (JObj m'). split; [reflexivity|]. apply canon_spec_obj_ext. exact F2.
  - intros j W. destruct j as [| | | | | | m]; try discriminate. rewrite well_covered_obj in W.
    apply andb_true_iff in W as [W Wr]. apply andb_true_iff in W as [W Wf].
    apply andb_true_iff in W as [W Wt]. apply andb_true_iff in W as [Wm Wn].
    apply nodup_bytes_NoDup in Wm. apply nodup_bytes_NoDup in Wn.
    apply negb_true_iff in Wt. apply mem_bytes_notin in Wt.
    destruct (known_core fields IH m Wm Wn Wf) as (known & K & Pk).
    destruct (rest_core tag r (map fst fields) m known Wm Wt Wr) as (rst & R & Pr).
    rewrite project_obj, K, R. eexists. split; [reflexivity|].
    symmetry. apply cs_obj_perm; [|exact Wm]. rewrite <- Pk, <- Pr. reflexivity.
Qed.

Theorem lossless_accepts s j b : well_covered s j = true -> canon j = Some b -> accepts s b j = true.
Proof.
  intros W C. destruct (lossless s j W) as (r & P & E). apply accepts_spec. exists r.
  split; [exact P|]. rewrite E, <- canon_is_cs. exact C.
Qed.

(* within the domain, acceptance is a function of the canonical form: any re-ordering of members, at
   any level, that leaves the document in the domain leaves acceptance unchanged *)
Theorem reformat_accepted_covered s b j1 j2 :
  well_covered s j1 = true -> well_covered s j2 = true -> canon j1 = canon j2 ->
  accepts s b j1 = accepts s b j2.
Proof.
  intros W1 W2 C. destruct (lossless s j1 W1) as (r1 & P1 & E1). destruct (lossless s j2 W2) as (r2 & P2 & E2).
  unfold accepts. rewrite P1, P2, !canon_is_cs, E1, E2, <- !canon_is_cs, C. reflexivity.
Qed.


(* ---------------------------------------------------------------------------------------- *)
(* member re-ordering: the relation [reorder] is defined in Model/Schema.v *)
Section reorder_ind2.
  Variable P : jv -> jv -> Prop.
  Hypothesis Hrefl : forall v, P v v.
  Hypothesis Harr : forall l1 l2, Forall2 P l1 l2 -> P (JArr l1) (JArr l2).
  Hypothesis Hobj : forall m1 m2 m3,
      Forall2 (fun a b => fst a = fst b /\ P (snd a) (snd b)) m1 m2 ->
      NoDup (map fst m1) -> Permutation m2 m3 -> P (JObj m1) (JObj m3).
  Fixpoint reorder_ind2 v1 v2 (H : reorder v1 v2) {struct H} : P v1 v2 :=
    match H in reorder a b return P a b with
    | ro_refl v => Hrefl v
    | ro_arr l1 l2 F =>
        Harr l1 l2
             ((fix go l1 l2 (F : Forall2 reorder l1 l2) {struct F} : Forall2 P l1 l2 :=
                 match F in Forall2 _ a b return Forall2 P a b with
                 | Forall2_nil _ => Forall2_nil _
                 | @Forall2_cons _ _ _ x y a b h t => @Forall2_cons _ _ _ x y a b (reorder_ind2 x y h) (go a b t)
                 end) l1 l2 F)
    | ro_obj m1 m2 m3 F N Pm =>
        Hobj m1 m2 m3
             ((fix go m1 m2 (F : Forall2 (fun a b => fst a = fst b /\ reorder (snd a) (snd b)) m1 m2) {struct F}
                : Forall2 (fun a b => fst a = fst b /\ P (snd a) (snd b)) m1 m2 :=
                 match F in Forall2 _ a b return Forall2 (fun a b => fst a = fst b /\ P (snd a) (snd b)) a b with
                 | Forall2_nil _ => Forall2_nil _
                 | @Forall2_cons _ _ _ x y a b h t =>
                     @Forall2_cons _ _ _ x y a b
                                   (match h with conj e r => conj e (reorder_ind2 (snd x) (snd y) r) end) (go a b t)
                 end) m1 m2 F) N Pm
    end.
End reorder_ind2.

Lemma Forall2_keys (R : jv -> jv -> Prop) (m1 m2 : members) :
  Forall2 (fun a b => fst a = fst b /\ R (snd a) (snd b)) m1 m2 -> map fst m2 = map fst m1.
Proof. induction 1 as [|a b m1 m2 [E _] F IH]; [reflexivity|]. cbn [map]. rewrite E, IH. reflexivity. Qed.

Theorem reorder_cs v1 v2 : reorder v1 v2 -> cs v1 = cs v2.
Proof.
  induction 1 as [v|l1 l2 F|m1 m2 m3 F N Pm] using reorder_ind2.
  - reflexivity.
  - apply canon_spec_arr_ext. exact F.
  - transitivity (cs (JObj m2)).
    + apply canon_spec_obj_ext. exact F.
    + apply canon_spec_members_order; [exact Pm|].
      change (NoDup (map fst m2)). rewrite (Forall2_keys (fun a b => cs a = cs b) _ _ F). exact N.
Qed.

Lemma Forall2_refl {A} (R : A -> A -> Prop) (l : list A) : (forall x, R x x) -> Forall2 R l l.
Proof. intro H. induction l; constructor; auto. Qed.

Lemma reorder_arr_inv l1 v2 : reorder (JArr l1) v2 -> exists l2, v2 = JArr l2 /\ Forall2 reorder l1 l2.
Proof.
  intro H. inversion H; subst.
  - exists l1. split; [reflexivity|]. apply Forall2_refl. apply ro_refl.
  - eexists. split; [reflexivity|assumption].
Qed.

Lemma reorder_obj_inv m1 v2 : reorder (JObj m1) v2 ->
  exists m2 m3, v2 = JObj m3 /\ Forall2 (fun a b => fst a = fst b /\ reorder (snd a) (snd b)) m1 m2
                /\ Permutation m2 m3.
Proof.
  intro H. inversion H; subst.
  - exists m1, m1. split; [reflexivity|]. split; [|reflexivity]. apply Forall2_refl. intro x. split; [reflexivity|apply ro_refl].
  - eexists _, _. split; [reflexivity|]. split; eassumption.
Qed.

Lemma Forall2_In_r {A B} (R : A -> B -> Prop) a b y : Forall2 R a b -> In y b -> exists x, In x a /\ R x y.
Proof.
  induction 1 as [|x0 y0 a b Hxy F IH]; intro Hin; [contradiction|]. destruct Hin as [<-|Hin].
  - exists x0. split; [left; reflexivity|exact Hxy].
  - destruct (IH Hin) as (x & Hx & Rx). exists x. split; [right; exact Hx|exact Rx].
Qed.

Lemma NoDup_nodup_bytes l : NoDup l -> nodup_bytes l = true.
Proof.
  induction 1 as [|x l Nx Nl IH]; [reflexivity|]. cbn [nodup_bytes]. rewrite IH, andb_true_r.
  apply negb_true_iff. destruct (mem_bytes x l) eqn:E; [|reflexivity]. apply mem_bytes_In in E. contradiction.
Qed.

Lemma find_assoc_In n (m : members) v : find_assoc n m = Some v -> In (n, v) m.
Proof.
  induction m as [|[k x] m IH]; cbn [find_assoc]; [discriminate|]. destruct (bytes_eqb n k) eqn:E.
  - intro H. inversion H; subst. apply bytes_eqb_eq in E. subst. left. reflexivity.
  - intro H. right. apply IH, H.
Qed.

Lemma In_find_assoc n (m : members) v : NoDup (map fst m) -> In (n, v) m -> find_assoc n m = Some v.
Proof.
  induction m as [|[k x] m IH]; intros N Hin; [contradiction|]. cbn [find_assoc]. cbn [map fst] in N.
  inversion N as [|? ? Nk Nm]; subst. destruct Hin as [E|Hin].
  - inversion E; subst. rewrite bytes_eqb_refl. reflexivity.
  - destruct (bytes_eqb n k) eqn:E.
    + apply bytes_eqb_eq in E. subst k. exfalso. apply Nk. apply in_map_iff. exists (n, v). auto.
    + apply IH; assumption.
Qed.

Lemma find_assoc_perm n (a b : members) : NoDup (map fst a) -> Permutation a b ->
  find_assoc n a = find_assoc n b.
Proof.
  intros N P.
  assert (Nb : NoDup (map fst b)) by (eapply Permutation_NoDup; [apply Permutation_map, P|exact N]).
  destruct (find_assoc n a) as [v|] eqn:Fa.
  - symmetry. apply In_find_assoc; [exact Nb|]. eapply Permutation_in; [exact P|]. apply find_assoc_In, Fa.
  - destruct (find_assoc n b) as [v|] eqn:Fb; [|reflexivity]. exfalso.
    apply find_assoc_In in Fb. apply (Permutation_in _ (Permutation_sym P)) in Fb.
    rewrite (In_find_assoc _ _ _ N Fb) in Fa. discriminate.
Qed.

Lemma find_assoc_Forall2 (R : jv -> jv -> Prop) n (m1 m2 : members) :
  Forall2 (fun a b => fst a = fst b /\ R (snd a) (snd b)) m1 m2 ->
  match find_assoc n m1, find_assoc n m2 with
  | Some v1, Some v2 => R v1 v2
  | None, None => True
  | _, _ => False
  end.
Proof.
  induction 1 as [|[k1 x1] [k2 x2] m1 m2 [E Rx] F IH]; cbn [find_assoc]; [exact I|].
  cbn [fst snd] in *. subst k2. destruct (bytes_eqb n k1); [exact Rx|exact IH].
Qed.

Lemma perm_filter {A} (f : A -> bool) a b : Permutation a b -> Permutation (filter f a) (filter f b).
Proof.
  induction 1 as [|x a b P IH|x y a|a b c P1 IH1 P2 IH2]; cbn [filter].
  - constructor.
  - destruct (f x); [apply perm_skip|]; exact IH.
  - destruct (f x), (f y); try reflexivity. apply perm_swap.
  - eapply perm_trans; eassumption.
Qed.

Lemma unknown_Forall2 (R : jv -> jv -> Prop) names (m1 m2 : members) :
  Forall2 (fun a b => fst a = fst b /\ R (snd a) (snd b)) m1 m2 ->
  Forall2 (fun a b => fst a = fst b /\ R (snd a) (snd b)) (unknown_members names m1) (unknown_members names m2).
Proof.
  unfold unknown_members. induction 1 as [|a b m1 m2 [E Rx] F IH]; cbn [filter]; [constructor|].
  rewrite E. destruct (negb (mem_bytes (fst b) names)); [constructor; [split; assumption|exact IH]|exact IH].
Qed.

Lemma reorder_from v1 v2 : reorder v1 v2 ->
  match v1 with JArr _ | JObj _ => True | _ => v2 = v1 end.
Proof. intro H. destruct H; [destruct v; try exact I; reflexivity|exact I|exact I]. Qed.

Lemma reorder_to v1 v2 : reorder v1 v2 ->
  match v2 with JArr _ | JObj _ => True | _ => v1 = v2 end.
Proof. intro H. destruct H; [destruct v; try exact I; reflexivity|exact I|exact I]. Qed.

Lemma str_array_reorder v1 v2 x : str_array v1 = Some x -> reorder v1 v2 -> v2 = v1.
Proof.
  destruct v1 as [| | | | | l1 |]; cbn [str_array]; try discriminate.
  destruct (forallb is_str l1) eqn:A; [|discriminate]. intros _ H.
  apply reorder_arr_inv in H as (l2 & -> & F). f_equal.
  induction F as [|a b l1 l2 Rab F IH]; [reflexivity|]. cbn [forallb] in A. apply andb_true_iff in A as [Aa Al].
  rewrite (IH Al). destruct a; try discriminate. apply reorder_from in Rab. rewrite Rab. reflexivity.
Qed.

Lemma reorder_to_empty v1 : reorder v1 (JObj []) -> v1 = JObj [].
Proof.
  intro H. inversion H as [|?|m1 m2 m3 F N Pm]; subst; [reflexivity|].
  apply Permutation_sym, Permutation_nil in Pm. subst m2. inversion F. reflexivity.
Qed.

Lemma kind_ok_reorder kind v1 v2 : reorder v1 v2 -> kind_ok kind v1 = true -> kind_ok kind v2 = true.
Proof.
  intros H K. destruct kind.
  - destruct v2; reflexivity.
  - destruct v2; try reflexivity. apply reorder_to in H. subst v1. exact K.
  - destruct v2 as [| | | | | |[|x y]]; try reflexivity. exfalso.
    apply reorder_to_empty in H. subst v1. discriminate.
Qed.

Lemma forallb_perm {A} (f : A -> bool) a b : Permutation a b -> forallb f a = true -> forallb f b = true.
Proof.
  intros P H. apply forallb_forall. intros x Hx. rewrite forallb_forall in H. apply H.
  eapply Permutation_in; [apply Permutation_sym, P|exact Hx].
Qed.

Lemma map_opt_perm {A B} (f : A -> option B) a b : Permutation a b ->
  forall da, map_opt f a = Some da -> exists db, map_opt f b = Some db /\ Permutation da db.
Proof.
  induction 1 as [|x a b P IH|x y a|a b c P1 IH1 P2 IH2]; intros da H; cbn [map_opt] in *.
  - inversion H. exists []. split; [reflexivity|constructor].
  - destruct (f x) as [fx|]; [|discriminate]. destruct (map_opt f a) as [ta|]; [|discriminate].
    inversion H; subst. destruct (IH _ eq_refl) as (db & E & Pd). rewrite E.
    exists (fx :: db). split; [reflexivity|apply perm_skip, Pd].
  - destruct (f y) as [fy|]; [|discriminate]. destruct (f x) as [fx|]; [|discriminate].
    destruct (map_opt f a) as [ta|]; [|discriminate]. inversion H; subst.
    exists (fx :: fy :: ta). split; [reflexivity|apply perm_swap].
  - destruct (IH1 _ H) as (db & E & Pd). destruct (IH2 _ E) as (dc & E2 & Pd2).
    exists dc. split; [exact E2|eapply perm_trans; eassumption].
Qed.

Lemma keys_ok_perm kk a b : Permutation a b -> keys_ok kk a = true -> keys_ok kk b = true.
Proof.
  intros P H. destruct kk; cbn [keys_ok] in *.
  - reflexivity.
  - eapply forallb_perm; eassumption.
  - eapply forallb_perm; eassumption.
  - destruct (map_opt hex_decode a) as [da|] eqn:E; [|discriminate].
    destruct (map_opt_perm _ _ _ P _ E) as (db & Eb & Pd). rewrite Eb.
    apply NoDup_nodup_bytes. eapply Permutation_NoDup; [exact Pd|]. apply nodup_bytes_NoDup, H.
Qed.

Definition mrel (m1 m2 : members) : Prop :=
  Forall2 (fun a b => fst a = fst b /\ reorder (snd a) (snd b)) m1 m2.

Definition wc_stable (s : schema) : Prop :=
  forall j1 j2, reorder j1 j2 -> well_covered s j1 = true -> well_covered s j2 = true.

Lemma fields_covered_reorder fields : Forall (fun f => wc_stable (snd (snd f))) fields ->
  forall m1 m2 m3, mrel m1 m2 -> NoDup (map fst m1) -> Permutation m2 m3 ->
  fields_covered fields m1 = true -> fields_covered fields m3 = true.
Proof.
  induction 1 as [|[n [kind s]] fields Hf Hfs IH]; intros m1 m2 m3 F N Pm C; [reflexivity|].
  rewrite fields_covered_cons in *. cbn [fst snd] in *. apply andb_true_iff in C as [Cf Cfs].
  apply andb_true_iff. split; [|eapply IH; eassumption].
  unfold field_covered in *.
  assert (N2 : NoDup (map fst m2)) by (rewrite (Forall2_keys reorder _ _ F); exact N).
  rewrite <- (find_assoc_perm n m2 m3 N2 Pm).
  pose proof (find_assoc_Forall2 reorder n m1 m2 F) as Hn.
  destruct (find_assoc n m1) as [v1|], (find_assoc n m2) as [v2|]; try contradiction; [|exact Cf].
  apply andb_true_iff in Cf as [Wv Kv]. apply andb_true_iff. split.
  - exact (Hf v1 v2 Hn Wv).
  - exact (kind_ok_reorder _ _ _ Hn Kv).
Qed.

Lemma rest_covered_reorder tag r names m1 m2 m3 :
  mrel m1 m2 -> NoDup (map fst m1) -> Permutation m2 m3 ->
  rest_covered tag r names m1 = true -> rest_covered tag r names m3 = true.
Proof.
  intros F N Pm C. unfold rest_covered in *.
  assert (N2 : NoDup (map fst m2)) by (rewrite (Forall2_keys reorder _ _ F); exact N).
  pose proof (unknown_Forall2 reorder names m1 m2 F) as FU.
  assert (PU : Permutation (unknown_members names m2) (unknown_members names m3))
    by (apply perm_filter, Pm).
  remember (unknown_members names m1) as U1 eqn:E1 in *.
  remember (unknown_members names m2) as U2 eqn:E2 in *.
  remember (unknown_members names m3) as U3 eqn:E3 in *. clear E1 E2 E3.
  destruct r as [|skip|].
  - apply andb_true_iff in C as [Ct Cu]. rewrite Ct. cbn [andb].
    destruct U1; [|discriminate]. inversion FU; subst. apply Permutation_nil in PU. subst. reflexivity.
  - destruct tag as [t|]; [|exact C]. apply andb_true_iff in C as [Cs Ct]. rewrite Cs. cbn [andb].
    rewrite <- (find_assoc_perm k_type m2 m3 N2 Pm).
    pose proof (find_assoc_Forall2 reorder k_type m1 m2 F) as Hn.
    destruct (find_assoc k_type m1) as [v1|]; [|discriminate].
    destruct (find_assoc k_type m2) as [v2|]; [|contradiction].
    destruct v1; try discriminate. apply reorder_from in Hn. subst v2. exact Ct.
  - apply andb_true_iff in C as [Ct Cu]. rewrite Ct. cbn [andb].
    destruct U1 as [|kv1 [|]]; try discriminate.
    inversion FU as [|? kv2 ? U2' [Ek Rv] FU']; subst. inversion FU'; subst.
    apply Permutation_length_1_inv in PU. subst U3.
    apply andb_true_iff in Cu as [Ck Ca]. rewrite <- Ek, Ck. cbn [andb].
    destruct (str_array (snd kv1)) as [x|] eqn:Sa; [|discriminate].
    rewrite (str_array_reorder _ _ _ Sa Rv), Sa. reflexivity.
Qed.

Theorem reorder_covered s : wc_stable s.
Proof.
  induction s as [| | | nz | | | l | e IH | kk v IH | tag fields r IH] using schema_ind2; intros j1 j2 R W.
  - reflexivity.
  - destruct j1; cbn [well_covered project] in W; try discriminate; apply reorder_from in R; subst j2; exact W.
  - destruct j1; cbn [well_covered project] in W; try discriminate; apply reorder_from in R; subst j2; exact W.
  - destruct j1; cbn [well_covered project] in W; try discriminate; apply reorder_from in R; subst j2; exact W.
  - destruct j1; cbn [well_covered project] in W; try discriminate; apply reorder_from in R; subst j2; exact W.
  - destruct j1; cbn [well_covered project] in W; try discriminate; apply reorder_from in R; subst j2; exact W.
  - destruct j1; cbn [well_covered project] in W; try discriminate; apply reorder_from in R; subst j2; exact W.
  - destruct j1 as [| | | | | l1 |]; cbn [well_covered] in W; try discriminate.
    apply reorder_arr_inv in R as (l2 & -> & F). cbn [well_covered]. apply forallb_forall. intros y Hy.
    destruct (Forall2_In_r _ _ _ _ F Hy) as (x & Hx & Rxy). rewrite forallb_forall in W.
    exact (IH x y Rxy (W x Hx)).
  - destruct j1 as [| | | | | | m1]; cbn [well_covered] in W; try discriminate.
    apply reorder_obj_inv in R as (m2 & m3 & -> & F & Pm). cbn [well_covered].
    apply andb_true_iff in W as [Wk Wv]. apply andb_true_iff. split.
    + apply (keys_ok_perm kk (map fst m1)); [|exact Wk]. rewrite <- (Forall2_keys reorder _ _ F).
      apply Permutation_map, Pm.
    + apply forallb_forall. intros y Hy. apply (Permutation_in _ (Permutation_sym Pm)) in Hy.
      destruct (Forall2_In_r _ _ _ _ F Hy) as (x & Hx & Ek & Rxy). rewrite forallb_forall in Wv.
      exact (IH _ _ Rxy (Wv x Hx)).
  - destruct j1 as [| | | | | | m1]; try discriminate. rewrite well_covered_obj in W.
    apply reorder_obj_inv in R as (m2 & m3 & -> & F & Pm). rewrite well_covered_obj.
    apply andb_true_iff in W as [W Wr]. apply andb_true_iff in W as [W Wf].
    apply andb_true_iff in W as [W Wt]. apply andb_true_iff in W as [Wm Wn].
    pose proof (nodup_bytes_NoDup _ Wm) as N1.
    rewrite Wn, Wt, (fields_covered_reorder fields IH m1 m2 m3 F N1 Pm Wf),
      (rest_covered_reorder tag r _ m1 m2 m3 F N1 Pm Wr), !andb_true_r.
    apply NoDup_nodup_bytes. eapply Permutation_NoDup; [apply Permutation_map, Pm|].
    rewrite (Forall2_keys reorder _ _ F). exact N1.
Qed.

(* C12_reformat_accepted *)
Theorem reformat_accepted s b j1 j2 :
  well_covered s j1 = true -> reorder j1 j2 -> accepts s b j1 = accepts s b j2.
Proof.
  intros W R. apply reformat_accepted_covered; [exact W|exact (reorder_covered s j1 j2 R W)|].
  rewrite !canon_is_cs. apply reorder_cs, R.
Qed.


(* ---------------------------------------------------------------------------------------- *)
(* the canonical form determines the value up to member order / duplicate resolution, at any depth *)
Lemma bt_insert_map {V W} (f : V -> W) k v (acc : list (bytes * V)) :
  bt_insert k (f v) (map (fun kv => (fst kv, f (snd kv))) acc)
  = map (fun kv => (fst kv, f (snd kv))) (bt_insert k v acc).
Proof.
  induction acc as [|[k' v'] acc IH]; [reflexivity|]. cbn [map bt_insert fst snd].
  destruct (lex_ltb k k'); [reflexivity|]. destruct (bytes_eqb k k'); [reflexivity|].
  cbn [map fst snd]. rewrite IH. reflexivity.
Qed.

Lemma sort_members_map {V W} (f : V -> W) (m : list (bytes * V)) :
  sort_members (map (fun kv => (fst kv, f (snd kv))) m) = map (fun kv => (fst kv, f (snd kv))) (sort_members m).
Proof.
  unfold sort_members.
  assert (G : forall acc,
             fold_left (fun a kv => bt_insert (fst kv) (snd kv) a) (map (fun kv => (fst kv, f (snd kv))) m)
                       (map (fun kv => (fst kv, f (snd kv))) acc)
             = map (fun kv => (fst kv, f (snd kv)))
                   (fold_left (fun a kv => bt_insert (fst kv) (snd kv) a) m acc)).
  { induction m as [|[k v] m IH]; intro acc; [reflexivity|]. cbn [map fold_left fst snd].
    rewrite bt_insert_map. apply IH. }
  exact (G []).
Qed.

Definition unwrap (o : option bytes) : bytes := match o with Some b => b | None => [] end.

Lemma smembers_as_map m es : smembers m = Some es ->
  es = map (fun kv => (fst kv, unwrap (cs (snd kv)))) m /\ Forall (fun kv => cs (snd kv) <> None) m.
Proof.
  revert es; induction m as [|[k x] m IH]; intros es H; cbn [spec_members] in H.
  - inversion H. split; [reflexivity|constructor].
  - destruct (cs x) as [b|] eqn:Cx; [|discriminate]. destruct (smembers m) as [r|]; [|discriminate].
    inversion H; subst. destruct (IH _ eq_refl) as [E F]. split.
    + cbn [map fst snd]. rewrite Cx. cbn [unwrap]. f_equal. exact E.
    + constructor; [cbn [snd]; rewrite Cx; discriminate|exact F].
Qed.

Lemma items_split l1 : forall first l2 body1 body2 r1 r2,
  sitems first l1 = Some body1 -> sitems first l2 = Some body2 ->
  body1 ++ 93 :: r1 = body2 ++ 93 :: r2 ->
  Forall2 (fun x y => exists b, cs x = Some b /\ cs y = Some b) l1 l2.
Proof.
  induction l1 as [|x l1 IH]; intros first [|y l2] body1 body2 r1 r2 S1 S2 E; cbn [spec_items] in S1, S2.
  - constructor.
  - exfalso. inversion S1; subst. cbn [app] in E.
    destruct (cs y) as [by_|] eqn:Cy; [|discriminate]. destruct (sitems false l2); [|discriminate].
    inversion S2; subst. destruct (cs_head _ _ Cy) as (c & t & Eb & K). subst by_.
    destruct first; cbn [app] in E; inversion E; subst.
    pose proof (jkind_lt7 _ _ Cy). cbn in K. congruence.
  - exfalso. inversion S2; subst. cbn [app] in E.
    destruct (cs x) as [bx|] eqn:Cx; [|discriminate]. destruct (sitems false l1); [|discriminate].
    inversion S1; subst. destruct (cs_head _ _ Cx) as (c & t & Eb & K). subst bx.
    destruct first; cbn [app] in E; inversion E; subst.
    pose proof (jkind_lt7 _ _ Cx). cbn in K. congruence.
  - destruct (cs x) as [bx|] eqn:Cx; [|discriminate].
    destruct (sitems false l1) as [t1|] eqn:T1; [|discriminate].
    destruct (cs y) as [by_|] eqn:Cy; [|discriminate].
    destruct (sitems false l2) as [t2|] eqn:T2; [|discriminate].
    inversion S1; inversion S2; subst. clear S1 S2.
    assert (E' : bx ++ (t1 ++ 93 :: r1) = by_ ++ (t2 ++ 93 :: r2)).
    { destruct first; cbn [app] in E; rewrite <- ?app_assoc in E; [exact E|].
      inversion E. reflexivity. }
    destruct (cs_pf x _ Cx _ _ _ _ Cy E' (sitems_tail_delim _ _ _ T1) (sitems_tail_delim _ _ _ T2)) as [Eb Et].
    subst by_. constructor.
    + exists bx. split; assumption.
    + exact (IH false l2 t1 t2 r1 r2 T1 T2 Et).
Qed.

Lemma jnorm_obj m : jnorm (JObj m) = JObj (map (fun kv => (fst kv, jnorm (snd kv))) (sort_members m)).
Proof. cbn [jnorm]. rewrite sort_members_map. reflexivity. Qed.

Theorem cs_injective v1 : forall v2 b, cs v1 = Some b -> cs v2 = Some b -> jnorm v1 = jnorm v2.
Proof.
  induction v1 as [| bb | z | | s | l IHl | m IHm] using jv_ind2; intros v2 b H1 H2;
    destruct (cs_head _ _ H1) as (c1 & t1 & Eb1 & K1); destruct (cs_head _ _ H2) as (c2 & t2 & Eb2 & K2);
    assert (Ek : jkind v2 = jkind _) by (rewrite <- K1, <- K2; congruence);
    clear K1 K2 Eb1 Eb2 c1 c2 t1 t2.
  - destruct v2 as [| [|] | | | | |]; try discriminate. reflexivity.
  - destruct bb, v2 as [| [|] | | | | |]; try discriminate; reflexivity.
  - destruct v2 as [| [|] | z2 | | | |]; try discriminate. cbn [canon_spec] in H1, H2.
    rewrite <- H2 in H1. inversion H1 as [E].
    destruct (dec_z_prefix z z2 [] []) as [Ez _]; [rewrite !app_nil_r; exact E|exact I|exact I|].
    subst. reflexivity.
  - discriminate.
  - destruct v2 as [| [|] | | | s2 | |]; try discriminate. cbn [canon_spec] in H1, H2.
    assert (Q : quote s = quote s2) by congruence. apply quote_inj in Q. subst. reflexivity.
  - destruct v2 as [| [|] | | | | l2 |]; try discriminate. rewrite spec_arr in H1, H2.
    destruct (sitems true l) as [body1|] eqn:S1; [|discriminate].
    destruct (sitems true l2) as [body2|] eqn:S2; [|discriminate].
    inversion H1 as [E1]. rewrite <- E1 in H2. inversion H2 as [E].
    symmetry in E.
    pose proof (items_split l true l2 body1 body2 [] [] S1 S2 E) as F.
    cbn [jnorm]. f_equal. clear S1 S2 E E1 H1 H2.
    induction F as [|x y l l2 (bx & Cx & Cy) F IH]; [reflexivity|].
    inversion IHl as [|? ? Hx Hl]; subst. cbn [map]. rewrite (Hx y bx Cx Cy), (IH Hl eq_refl). reflexivity.
  - destruct v2 as [| [|] | | | | | m2]; try discriminate.
    destruct (smembers m) as [es1|] eqn:S1; [|rewrite spec_obj, S1 in H1; discriminate].
    destruct (smembers m2) as [es2|] eqn:S2; [|rewrite spec_obj, S2 in H2; discriminate].
    pose proof (cs_obj_entries_inj _ _ _ _ _ H1 H2 S1 S2) as E.
    destruct (smembers_as_map _ _ S1) as [M1 F1]. destruct (smembers_as_map _ _ S2) as [M2 F2].
    rewrite M1, M2, !(sort_members_map (fun x => unwrap (cs x))) in E. rewrite !jnorm_obj. f_equal.
    assert (G1 : Forall (fun kv => forall v2 b, cs (snd kv) = Some b -> cs v2 = Some b -> jnorm (snd kv) = jnorm v2)
                        (sort_members m)).
    { apply Forall_forall. intros e He. apply In_sort_members in He. rewrite Forall_forall in IHm. exact (IHm e He). }
    assert (N1 : Forall (fun kv => cs (snd kv) <> None) (sort_members m)).
    { apply Forall_forall. intros e He. apply In_sort_members in He. rewrite Forall_forall in F1. exact (F1 e He). }
    assert (N2 : Forall (fun kv => cs (snd kv) <> None) (sort_members m2)).
    { apply Forall_forall. intros e He. apply In_sort_members in He. rewrite Forall_forall in F2. exact (F2 e He). }
    clear - E G1 N1 N2. revert E G1 N1 N2. generalize (sort_members m) as A, (sort_members m2) as B.
    induction A as [|[k1 x1] A IH]; intros [|[k2 x2] B] E G1 N1 N2; cbn [map] in E; try discriminate; [reflexivity|].
    cbn [fst snd] in E. inversion E as [[Ek Ev Et]].
    inversion G1 as [|? ? Hx GA]; inversion N1 as [|? ? Nx NA]; inversion N2 as [|? ? Ny NB]; subst.
    cbn [snd] in *. cbn [map fst snd]. f_equal.
    + f_equal. destruct (cs x1) as [b1|] eqn:C1; [|contradiction]. destruct (cs x2) as [b2|] eqn:C2; [|contradiction].
      cbn [unwrap] in Ev. subst b2. exact (Hx x2 b1 eq_refl C2).
    + exact (IH B Et GA NA NB).
Qed.


(* ... and the sorted value has the same canonical form, so [jnorm] loses nothing *)
Lemma sorted_nodup {V} (l : list (bytes * V)) : Sorted.StronglySorted klt l -> NoDup (map fst l).
Proof.
  induction 1 as [|a l S IH F]; [constructor|]. cbn [map]. constructor; [|exact IH].
  intro Hin. apply in_map_iff in Hin as (e & Ee & Hin). rewrite Forall_forall in F.
  pose proof (F e Hin) as K. unfold klt in K. rewrite Ee, lex_ltb_irrefl in K. discriminate.
Qed.

Lemma sort_members_idem {V} (es : list (bytes * V)) : sort_members (sort_members es) = sort_members es.
Proof.
  assert (S1 : Sorted.StronglySorted klt (sort_members es))
    by (apply Sorted.Sorted_StronglySorted; [exact klt_trans|apply sort_members_sorted]).
  apply sorted_perm_eq.
  - apply Sorted.Sorted_StronglySorted; [exact klt_trans|apply sort_members_sorted].
  - exact S1.
  - apply Permutation_sym, sort_members_perm, sorted_nodup, S1.
Qed.

Lemma sitems_some l : forall first body, sitems first l = Some body -> Forall (fun x => cs x <> None) l.
Proof.
  induction l as [|x l IH]; intros first body H; [constructor|]. cbn [spec_items] in H.
  destruct (cs x) eqn:Cx; [|discriminate]. destruct (sitems false l) eqn:T; [|discriminate].
  constructor; [rewrite Cx; discriminate|exact (IH _ _ T)].
Qed.

Lemma smembers_of_some m : Forall (fun kv => cs (snd kv) <> None) m ->
  smembers m = Some (map (fun kv => (fst kv, unwrap (cs (snd kv)))) m).
Proof.
  induction 1 as [|[k x] m Hx Hm IH]; [reflexivity|]. cbn [spec_members map fst snd] in *.
  destruct (cs x); [|contradiction]. rewrite IH. reflexivity.
Qed.

Theorem jnorm_cs v : forall b, cs v = Some b -> cs (jnorm v) = Some b.
Proof.
  induction v as [| bb | z | | s | l IHl | m IHm] using jv_ind2; intros b H; try exact H.
  - rewrite <- H. cbn [jnorm]. apply canon_spec_arr_ext. rewrite spec_arr in H.
    destruct (sitems true l) as [body|] eqn:S; [|discriminate]. pose proof (sitems_some _ _ _ S) as F.
    clear - IHl F. induction l as [|x l IH]; [constructor|]. inversion IHl; inversion F; subst. cbn [map].
    constructor; [|apply IH; assumption].
    destruct (cs x) as [bx|] eqn:Cx; [|contradiction]. auto.
  - rewrite jnorm_obj. destruct (smembers m) as [es|] eqn:S; [|rewrite spec_obj, S in H; discriminate].
    destruct (smembers_as_map _ _ S) as [M F].
    assert (FS : Forall (fun kv => cs (snd kv) <> None) (sort_members m)).
    { apply Forall_forall. intros e He. apply In_sort_members in He. rewrite Forall_forall in F. exact (F e He). }
    transitivity (cs (JObj (sort_members m))).
    + apply canon_spec_obj_ext.
      assert (G : Forall (fun kv => forall b, cs (snd kv) = Some b -> cs (jnorm (snd kv)) = Some b) (sort_members m)).
      { apply Forall_forall. intros e He. apply In_sort_members in He. rewrite Forall_forall in IHm. exact (IHm e He). }
      clear - G FS. induction (sort_members m) as [|[k x] A IH]; [constructor|].
      inversion G; inversion FS; subst. cbn [map fst snd] in *. constructor; [|apply IH; assumption].
      split; [reflexivity|]. cbn [fst snd]. destruct (cs x) as [bx|] eqn:Cx; [|contradiction]. auto.
    + rewrite <- H, !spec_obj, S, (smembers_of_some _ FS).
      rewrite <- (sort_members_map (fun x => unwrap (cs x))), <- M, sort_members_idem. reflexivity.
Qed.

Theorem canonical_form_determines_value v1 v2 b : cs v1 = Some b ->
  (cs v2 = Some b <-> (jnorm v2 = jnorm v1 /\ cs v2 <> None)).
Proof.
  intro H1. split.
  - intro H2. split; [symmetry; exact (cs_injective v1 v2 b H1 H2)|rewrite H2; discriminate].
  - intros [E N]. destruct (cs v2) as [b2|] eqn:C2; [|contradiction].
    pose proof (jnorm_cs _ _ H1) as A. pose proof (jnorm_cs _ _ C2) as B. rewrite E, A in B. congruence.
Qed.


(* what is used is the signed value itself, up to member order *)
Theorem same_signed_same_value sch b j1 j2 :
  accepts sch b j1 = true -> accepts sch b j2 = true ->
  exists r1 r2, project sch j1 = Some r1 /\ project sch j2 = Some r2 /\ jnorm r1 = jnorm r2.
Proof.
  intros H1 H2. apply accepts_spec in H1 as (r1 & E1 & C1). apply accepts_spec in H2 as (r2 & E2 & C2).
  exists r1, r2. split; [exact E1|]. split; [exact E2|]. exact (cs_injective r1 r2 b C1 C2).
Qed.

(* any change that alters the retained value makes the document unacceptable *)
Theorem mutation_rejected sch b j j' r r' :
  accepts sch b j = true -> project sch j = Some r -> project sch j' = Some r' ->
  jnorm r' <> jnorm r -> accepts sch b j' = false.
Proof.
  intros H Pj Pj' Ne. destruct (accepts sch b j') eqn:A; [|reflexivity]. exfalso.
  destruct (same_signed_same_value sch b j j' H A) as (x & y & Ex & Ey & En).
  rewrite Pj in Ex. rewrite Pj' in Ey. inversion Ex; inversion Ey; subst. apply Ne. symmetry. exact En.
Qed.

(* ---------------------------------------------------------------------------------------- *)
(* finding F7: the two structs without catch-all *)
Definition n_delegations : bytes := bs "delegations".
Definition n_roles : bytes := bs "roles".
Definition n_star : bytes := bs "*".

Definition plain_targets_with (deleg_extra role_extra : members) : jv :=
  JObj [(bs "_type", JStr (bs "targets")); (bs "spec_version", JStr (bs "1.0.0")); (bs "version", JInt 1);
        (bs "expires", JStr (bs "2030-01-01T00:00:00Z")); (bs "targets", JObj []);
        (bs "delegations",
         JObj ([(bs "keys", JObj []);
                (bs "roles", JArr [JObj ([(bs "name", JStr (bs "r")); (bs "keyids", JArr []);
                                          (bs "threshold", JInt 1); (bs "paths", JArr [JStr (bs "*")]);
                                          (bs "terminating", JBool false)] ++ role_extra)])]
               ++ deleg_extra))].

Definition unknown_member : bytes * jv := (bs "x-unknown", JInt 1).
Definition f7_plain : jv := plain_targets_with [] [].
Definition f7_in_delegations : jv := plain_targets_with [unknown_member] [].
Definition f7_in_delegated_role : jv := plain_targets_with [] [unknown_member].

(* signed exactly as written: accepted? *)
Definition accepted_as_written (s : schema) (j : jv) : bool :=
  match canon j with Some b => accepts s b j | None => false end.

Lemma f7_witness :
  accepted_as_written targets_schema f7_plain = true
  /\ accepted_as_written targets_schema f7_in_delegations = false
  /\ accepted_as_written targets_schema f7_in_delegated_role = false
  /\ project targets_schema f7_in_delegations = project targets_schema f7_plain
  /\ project targets_schema f7_in_delegated_role = project targets_schema f7_plain
  /\ well_covered targets_schema f7_plain = true.
Proof. vm_compute. repeat split; reflexivity. Qed.

Lemma catch_all_levels :
  lossy_levels root_schema = [] /\ lossy_levels timestamp_schema = [] /\ lossy_levels snapshot_schema = []
  /\ lossy_levels targets_schema = [[n_delegations]; [n_delegations; n_roles; n_star]].
Proof. vm_compute. repeat split; reflexivity. Qed.

(* the same unknown member at the levels that do have a catch-all is carried along *)
Definition extra_at_top (j : jv) : jv :=
  match j with JObj m => JObj (m ++ [unknown_member]) | _ => j end.
Lemma top_level_extra_kept :
  accepted_as_written targets_schema (extra_at_top f7_plain) = true
  /\ well_covered targets_schema (extra_at_top f7_plain) = true.
Proof. vm_compute. split; reflexivity. Qed.
