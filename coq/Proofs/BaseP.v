From ToughV Require Import Model.Base.
From Coq Require Import ZifyBool ZifyN ZifyNat.
Ltac Zify.zify_post_hook ::= Z.div_mod_to_equations.

Lemma undec_acc_app acc l c : undec_acc acc (l ++ [c]) = undec_acc acc l * 10 + (c - 48).
Proof. revert acc; induction l as [|x l IH]; intro acc; cbn [undec_acc app]; [reflexivity|apply IH]. Qed.

Lemma is_digit_digit d : d < 10 -> is_digit (digit d) = true.
Proof. unfold is_digit, digit; intros; lia. Qed.

Lemma dec_rev_S f n : dec_rev (S f) n =
  if n <? 10 then [digit n] else digit (n mod 10) :: dec_rev f (n / 10).
Proof. reflexivity. Qed.

Lemma dec_rev_spec f : forall n, n < 2 ^ N.of_nat f ->
  undec (rev (dec_rev (S f) n)) = n /\ Forall (fun c => is_digit c = true) (dec_rev (S f) n)
  /\ dec_rev (S f) n <> [].
Proof.
  induction f as [|f IH]; intros n Hn.
  - assert (n = 0) by (cbn in Hn; lia). subst. cbn. repeat split; try discriminate.
    constructor; [reflexivity|constructor].
  - rewrite dec_rev_S. destruct (n <? 10) eqn:E.
    + repeat split; try discriminate.
      * unfold undec. cbn [rev app undec_acc]. unfold digit. lia.
      * constructor; [apply is_digit_digit; lia|constructor].
    + assert (Hd : n / 10 < 2 ^ N.of_nat f).
      { rewrite Nat2N.inj_succ, N.pow_succ_r' in Hn. lia. }
      destruct (IH _ Hd) as (H1 & H2 & H3).
      repeat split; try discriminate.
      * cbn [rev]. unfold undec in *. rewrite undec_acc_app, H1. unfold digit. lia.
      * constructor; [apply is_digit_digit; lia|exact H2].
Qed.

Lemma dec_fuel_ok n : n < 2 ^ N.of_nat (N.to_nat (N.size n)).
Proof. rewrite N2Nat.id. apply N.size_gt. Qed.

Lemma undec_dec n : undec (dec n) = n.
Proof. unfold dec, dec_fuel. apply (dec_rev_spec _ _ (dec_fuel_ok n)). Qed.

Lemma dec_inj a b : dec a = dec b -> a = b.
Proof. intro H. rewrite <- (undec_dec a), <- (undec_dec b), H. reflexivity. Qed.

Lemma dec_digits n : Forall (fun c => is_digit c = true) (dec n).
Proof.
  unfold dec, dec_fuel. apply Forall_rev. apply (dec_rev_spec _ _ (dec_fuel_ok n)).
Qed.

Lemma dec_nonempty n : dec n <> [].
Proof.
  unfold dec, dec_fuel. intro H. apply (f_equal (@rev _)) in H. rewrite rev_involutive in H.
  cbn [rev] in H. revert H. apply (dec_rev_spec _ _ (dec_fuel_ok n)).
Qed.

Lemma bytes_eqb_eq a : forall b, bytes_eqb a b = true <-> a = b.
Proof.
  induction a as [|x a IH]; intros [|y b]; cbn [bytes_eqb]; split; intro H; try discriminate; auto.
  - apply andb_true_iff in H as [H1 H2]. apply N.eqb_eq in H1. apply IH in H2. congruence.
  - inversion H; subst. rewrite N.eqb_refl. cbn. apply IH. reflexivity.
Qed.

Lemma bytes_eqb_refl a : bytes_eqb a a = true.
Proof. apply bytes_eqb_eq. reflexivity. Qed.

Lemma bytes_eqb_neq a b : bytes_eqb a b = false <-> a <> b.
Proof.
  split; intro H.
  - intro E. apply bytes_eqb_eq in E. congruence.
  - destruct (bytes_eqb a b) eqn:E; [apply bytes_eqb_eq in E; contradiction|reflexivity].
Qed.

Lemma lex_ltb_irrefl a : lex_ltb a a = false.
Proof. induction a as [|x a IH]; cbn [lex_ltb]; [reflexivity|]. rewrite N.ltb_irrefl, N.eqb_refl. exact IH. Qed.

Lemma lex_ltb_trans a : forall b c, lex_ltb a b = true -> lex_ltb b c = true -> lex_ltb a c = true.
Proof.
  induction a as [|x a IH]; intros [|y b] [|z c]; cbn [lex_ltb]; intros H1 H2; try discriminate; auto.
  destruct (x <? y) eqn:Exy.
  - destruct (y <? z) eqn:Eyz.
    + assert (x <? z = true) as -> by lia. reflexivity.
    + destruct (y =? z) eqn:Eyz'; [|discriminate]. assert (x <? z = true) as -> by lia. reflexivity.
  - destruct (x =? y) eqn:Exy'; [|discriminate]. apply N.eqb_eq in Exy'. subst y.
    destruct (x <? z) eqn:Exz; [reflexivity|].
    destruct (x =? z) eqn:Exz'; [|discriminate]. eapply IH; eassumption.
Qed.

Lemma lex_ltb_total a : forall b, lex_ltb a b = false -> lex_ltb b a = false -> a = b.
Proof.
  induction a as [|x a IH]; intros [|y b]; cbn [lex_ltb]; intros H1 H2; try discriminate; auto.
  destruct (x <? y) eqn:E1; [discriminate|]. destruct (y <? x) eqn:E2; [discriminate|].
  assert (x = y) by lia. subst y. rewrite N.eqb_refl in *. f_equal. apply IH; assumption.
Qed.

Lemma lex_ltb_asym a b : lex_ltb a b = true -> lex_ltb b a = false.
Proof.
  intro H. destruct (lex_ltb b a) eqn:E; [|reflexivity].
  pose proof (lex_ltb_trans _ _ _ H E) as H'. rewrite lex_ltb_irrefl in H'. discriminate.
Qed.
