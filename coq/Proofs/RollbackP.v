(* Rollback protection across update cycles sharing a datastore (C03), its survival of crashes and
   failed writes (C15: the fault of every cycle is universally quantified), and what one successful
   cycle establishes. All statements are about the model with every repair in place ([fixed]). *)
From ToughV Require Import Model.Base Model.Pct Model.Sig Model.Glob Model.Deleg Model.Client.
From ToughV Require Import Proofs.BaseP Proofs.SigP Proofs.ClientP.
From Coq Require Import ZifyBool ZifyN ZifyNat.

(* two roots authorise the same signature sets for a role *)
Definition auth_eq (role : N) (r r' : root) : Prop :=
  forall sigs, root_verify r role sigs = root_verify r' role sigs.

(* the online roles (timestamp 3, snapshot 1) are authorised identically: same keys in the same
   order as step 1.9 compares them, and same verification outcome for every signature list *)
Definition online_same (r r' : root) : Prop :=
  role_keys r 3 = role_keys r' 3 /\ role_keys r 1 = role_keys r' 1 /\ auth_eq 3 r r' /\ auth_eq 1 r r'.

Lemma online_same_refl r : online_same r r.
Proof. repeat split. Qed.
Lemma online_same_sym a b : online_same a b -> online_same b a.
Proof. intros (H1 & H2 & H3 & H4). repeat split; auto; intro; symmetry; auto. Qed.
Lemma online_same_trans a b c : online_same a b -> online_same b c -> online_same a c.
Proof.
  intros (H1 & H2 & H3 & H4) (G1 & G2 & G3 & G4).
  split; [congruence|split; [congruence|split]]; intro sigs; [rewrite H3; apply G3|rewrite H4; apply G4].
Qed.

(* sufficient syntactic condition: the role's entry (key ids and threshold) is unchanged and so is the
   presence of each of its key ids in the key table - "keys and threshold did not change" *)
Lemma keys_upto_missing_ext t t' ids :
  (forall k, In k ids -> memN k t = memN k t') -> keys_upto_missing t ids = keys_upto_missing t' ids.
Proof.
  induction ids as [|k ids IH]; intro H; [reflexivity|]. cbn [keys_upto_missing].
  rewrite <- (H k (or_introl eq_refl)). destruct (memN k t); [|reflexivity].
  f_equal. apply IH. intros x Hx. apply H. right. exact Hx.
Qed.

Lemma count_distinct_ext t t' ids sigs : (forall k, In k ids -> memN k t = memN k t') ->
  forall seen, count_distinct t ids seen sigs = count_distinct t' ids seen sigs.
Proof.
  intro H. induction sigs as [|s sigs IH]; intro seen; [reflexivity|]. cbn [count_distinct].
  assert (E : memN (s_claim s) ids && sig_valid t s = memN (s_claim s) ids && sig_valid t' s).
  { destruct (memN (s_claim s) ids) eqn:M; [|reflexivity]. cbn [andb]. unfold sig_valid.
    rewrite (H _ (proj1 (memN_In _ _) M)). reflexivity. }
  rewrite E. destruct (memN (s_claim s) ids && sig_valid t' s); [|apply IH].
  destruct (memN (s_claim s) seen); [apply IH|]. rewrite IH. reflexivity.
Qed.

Lemma same_entry_auth role r r' rk :
  find_role role (r_roles r) = Some rk -> find_role role (r_roles r') = Some rk ->
  (forall k, In k (rk_keyids rk) -> memN k (r_keys r) = memN k (r_keys r')) ->
  role_keys r role = role_keys r' role /\ auth_eq role r r'.
Proof.
  intros H1 H2 Hk. split.
  - unfold role_keys. rewrite H1, H2. apply keys_upto_missing_ext, Hk.
  - intro sigs. unfold root_verify. rewrite H1, H2. unfold verify_distinct.
    rewrite (count_distinct_ext _ _ _ _ Hk). reflexivity.
Qed.

Lemma listN_eqb_refl l : listN_eqb l l = true.
Proof. induction l as [|x l IH]; [reflexivity|]. cbn [listN_eqb]. rewrite N.eqb_refl. exact IH. Qed.

Lemma listN_eqb_eq a : forall b, listN_eqb a b = true -> a = b.
Proof.
  induction a as [|x a IH]; intros [|y b] H; try discriminate; [reflexivity|].
  cbn [listN_eqb] in H. apply andb_true_iff in H as [E H]. apply N.eqb_eq in E. subst. f_equal. apply IH, H.
Qed.

Lemma not_rotated ref r : role_keys ref 3 = role_keys r 3 -> role_keys ref 1 = role_keys r 1 ->
  rotated ref r = false.
Proof. intros H3 H1. unfold rotated. rewrite H3, H1, !listN_eqb_refl. reflexivity. Qed.

(* ---------------------------------------------------------------------------------------- *)
(* the walk does not depend on the datastore *)
Lemma root_walk_indep fx fuel cfg srv orig : forall cur w w2 res w',
  root_walk fx fuel cfg srv orig cur w = (res, w') ->
  exists w2', root_walk fx fuel cfg srv orig cur w2 = (res, w2').
Proof.
  induction fuel as [|f IH]; intros cur w w2 res w' H; cbn [root_walk] in *.
  { inv H. eauto. }
  destruct (r_version cur <? update_limit fx orig (c_max_root_updates cfg)); [|inv H; eauto].
  destruct (fetch srv (root_json (r_version cur + 1)) (c_max_root_size cfg) None) as [file|sub].
  - destruct (f_body file) as [|new| | |]; try (inv H; eauto; fail).
    destruct (negb (root_verify cur 0 (r_sigs new))); [inv H; eauto|].
    destruct (negb (root_verify new 0 (r_sigs new))); [inv H; eauto|].
    destruct (r_version new <? r_version cur); [inv H; eauto|].
    destruct (r_version new =? r_version cur); [inv H; eauto|].
    eapply IH. exact H.
  - destruct ((sub =? 0) || (sub =? 1) || (sub =? 5)); inv H; eauto.
Qed.

Lemma final_root_of_walk fx c r0 r w w1 :
  cy_shipped c = CRoot r0 -> root_verify r0 0 (r_sigs r0) = true ->
  root_walk fx (c_fuel (cy_cfg c)) (cy_cfg c) (cy_srv c) (r_version r0) r0 w = (Ok r, w1) ->
  final_root fx c = Some r.
Proof.
  intros Hs Hv Hw. unfold final_root. rewrite Hs, Hv.
  destruct (root_walk_indep _ _ _ _ _ _ _ (world0 store0 None) _ _ Hw) as [w2 E]. rewrite E. reflexivity.
Qed.

(* ---------------------------------------------------------------------------------------- *)
(* what the stored files demand of the next cycle, under the authority of root [A] *)
Definition ts_floor (A : root) (s : store) : N :=
  match st_ts s with
  | Some (SDoc t) => if root_verify A 3 (ts_sigs t) then ts_version t else 0
  | _ => 0
  end.
Definition snap_floor (A : root) (s : store) : N :=
  match st_snap s with
  | Some (SDoc t) => if root_verify A 1 (sn_sigs t) then sn_version t else 0
  | _ => 0
  end.
(* version the stored snapshot lists for targets.json *)
Definition listed_floor (A : root) (s : store) : N :=
  match st_snap s with
  | Some (SDoc t) => if root_verify A 1 (sn_sigs t)
                     then match lookup name_targets (sn_meta t) with Some m => m_version m | None => 0 end
                     else 0
  | _ => 0
  end.
Definition tgt_floor (A : root) (s : store) : N :=
  match st_tgt s with
  | Some (SDoc t) => if root_verify A 2 (tg_sigs t) then tg_version t else 0
  | _ => 0
  end.

Definition InvA (A : root) (s : store) : Prop :=
  exists pr, st_root s = Some (SDoc pr) /\ online_same A pr.

Definition listed_version (sn : snapshot) : N :=
  match lookup name_targets (sn_meta sn) with Some m => m_version m | None => 0 end.

Definition fixed_atomic : fx_atomic_store fixed = true := eq_refl.

(* one cycle, successful or not, interrupted or not, under unchanged online authorisation *)
Lemma cycle_online A c s res w' :
  InvA A s ->
  (forall r, final_root fixed c = Some r -> online_same A r) ->
  run_cycle fixed c s = (res, w') ->
  InvA A (w_store w')
  /\ ts_floor A s <= ts_floor A (w_store w')
  /\ snap_floor A s <= snap_floor A (w_store w')
  /\ listed_floor A s <= listed_floor A (w_store w')
  /\ match res with
     | Ok rp => online_same A (rp_root rp)
                /\ ts_floor A (w_store w') = ts_version (rp_ts rp)
                /\ snap_floor A (w_store w') = sn_version (rp_snap rp)
                /\ listed_floor A (w_store w') = listed_version (rp_snap rp)
     | Err _ _ => True
     end.
Proof.
  intros (pr & Hpr & Hsame) Hfin H. unfold run_cycle, cycle in H.
  set (w0 := world0 s (cy_fault c)) in *.
  assert (Trivial : forall (w1 : world), same_docs (w_store w0) (w_store w1) ->
            InvA A (w_store w1) /\ ts_floor A s <= ts_floor A (w_store w1)
            /\ snap_floor A s <= snap_floor A (w_store w1)
            /\ listed_floor A s <= listed_floor A (w_store w1)
            /\ True).
  { intros w1 (R & T & S & G). cbn [w0 world0 w_store] in R, T, S, G.
    unfold InvA, ts_floor, snap_floor, listed_floor. rewrite <- R, <- T, <- S.
    split; [exists pr; auto|]. repeat split; lia. }
  unfold load_root in H.
  destruct (cy_shipped c) as [|r0| | |] eqn:Hship;
    try (inv H; cbv iota; apply (Trivial w0 (same_docs_refl _))).
  destruct (root_verify r0 0 (r_sigs r0)) eqn:V0; cbn [negb] in H.
  2:{ inv H. cbv iota. apply (Trivial w0 (same_docs_refl _)). }
  destruct (root_walk fixed (c_fuel (cy_cfg c)) (cy_cfg c) (cy_srv c) (r_version r0) r0 w0) as [[r|cw aw] w1] eqn:Hw.
  2:{ inv H. apply root_walk_store in Hw as (Sw & _). cbv iota. apply Trivial. rewrite Sw. apply same_docs_refl. }
  pose proof (final_root_of_walk _ _ _ _ _ _ Hship V0 Hw) as Hfr. specialize (Hfin r Hfr).
  apply root_walk_store in Hw as (Sw & _).
  assert (Href : reference_root fixed r0 (w_store w0) = pr).
  { unfold reference_root. cbn [fixed fx_prev_root w0 world0 w_store]. rewrite Hpr. reflexivity. }
  rewrite Href in H.
  assert (Hrot : rotated pr r = false).
  { destruct Hsame as (S3 & S1 & _). destruct Hfin as (F3 & F1 & _). apply not_rotated; congruence. }
  destruct (finish_root fixed (cy_cfg c) (cy_now c) pr r w1) as [resR w2] eqn:Hfinish.
  pose proof (finish_root_atomic _ _ _ _ _ _ _ _ fixed_atomic Hfinish) as (G2 & Keep & _ & _ & R2 & Ok2).
  destruct (Keep Hrot) as [T2 S2]. rewrite Sw in G2, T2, S2, R2. cbn [w0 world0 w_store] in G2, T2, S2, R2.
  assert (Inv2 : InvA A (w_store w2)).
  { destruct R2 as [R2|[_ R2]]; [exists pr; rewrite R2; auto|exists r; auto]. }
  assert (Fl2 : ts_floor A (w_store w2) = ts_floor A s /\ snap_floor A (w_store w2) = snap_floor A s
                /\ listed_floor A (w_store w2) = listed_floor A s).
  { unfold ts_floor, snap_floor, listed_floor. rewrite T2, S2. auto. }
  destruct Fl2 as (FT2 & FS2 & FL2).
  destruct resR as [rr|cr ar].
  2:{ inv H. split; [exact Inv2|]. rewrite FT2, FS2, FL2. repeat split; lia. }
  destruct Ok2 as (-> & Rr & _ & _). specialize (Rr eq_refl).
  destruct Hfin as (F3 & F1 & A3 & A1).
  (* step 2 *)
  destruct (load_timestamp fixed (cy_cfg c) r (cy_srv c) (cy_now c) w2) as [resT w3] eqn:HT.
  pose proof (load_timestamp_atomic _ _ _ _ _ _ _ _ fixed_atomic HT) as (R3 & S3 & G3 & T3 & Ok3).
  assert (Inv3 : InvA A (w_store w3)).
  { exists r. rewrite R3, Rr. split; [reflexivity|repeat split; auto]. }
  assert (FT3 : ts_floor A (w_store w2) <= ts_floor A (w_store w3)).
  { destruct T3 as [T3|(ts & T3 & (_ & Vts & Old & _))].
    - unfold ts_floor. rewrite T3. lia.
    - unfold ts_floor at 2. rewrite T3, A3, Vts. unfold ts_floor.
      destruct (st_ts (w_store w2)) as [[|old]|] eqn:Eo; try lia.
      rewrite A3. destruct (root_verify r 3 (ts_sigs old)) eqn:Vo; [|lia]. apply (Old old eq_refl Vo). }
  assert (FS3 : snap_floor A (w_store w3) = snap_floor A (w_store w2)
                /\ listed_floor A (w_store w3) = listed_floor A (w_store w2)).
  { unfold snap_floor, listed_floor. rewrite S3. auto. }
  destruct FS3 as (FS3 & FL3).
  destruct resT as [ts|ct at_].
  2:{ inv H. split; [exact Inv3|]. repeat split; lia. }
  destruct Ok3 as (Tts & (_ & Vts & _ & _)).
  (* step 3 *)
  destruct (load_snapshot fixed (cy_cfg c) r ts (cy_srv c) (cy_now c) w3) as [resS w4] eqn:HS.
  pose proof (load_snapshot_atomic _ _ _ _ _ _ _ _ _ fixed_atomic HS) as (R4 & T4 & G4 & S4 & Ok4).
  assert (Inv4 : InvA A (w_store w4)).
  { exists r. rewrite R4, R3, Rr. split; [reflexivity|repeat split; auto]. }
  assert (FT4 : ts_floor A (w_store w4) = ts_floor A (w_store w3)).
  { unfold ts_floor. rewrite T4. reflexivity. }
  assert (FS4 : snap_floor A (w_store w3) <= snap_floor A (w_store w4)
                /\ listed_floor A (w_store w3) <= listed_floor A (w_store w4)).
  { destruct S4 as [S4|(sn & S4 & (_ & Vsn & Old & _))].
    - unfold snap_floor, listed_floor. rewrite S4. lia.
    - unfold snap_floor at 2, listed_floor at 2. rewrite S4, A1, Vsn.
      unfold snap_floor, listed_floor.
      destruct (st_snap (w_store w3)) as [[|old]|] eqn:Eo; try lia.
      rewrite A1. destruct (root_verify r 1 (sn_sigs old)) eqn:Vo; [|lia].
      destruct (Old old eq_refl Vo) as [Hv Hl]. split; [exact Hv|].
      destruct (lookup name_targets (sn_meta old)) as [om|] eqn:Eom; [|lia].
      destruct (Hl om eq_refl) as (nm & Enm & Hle). rewrite Enm. exact Hle. }
  destruct FS4 as (FS4 & FL4).
  destruct resS as [sn|cs_ as_].
  2:{ inv H. split; [exact Inv4|]. repeat split; lia. }
  destruct Ok4 as (Ssn & (_ & Vsn & _ & _)).
  (* step 4 *)
  destruct (load_targets fixed (cy_cfg c) r sn (cy_srv c) (cy_now c) w4) as [resG w5] eqn:HG.
  pose proof (load_targets_atomic _ _ _ _ _ _ _ _ _ fixed_atomic HG) as (R5 & T5 & S5 & _ & _).
  assert (Inv5 : InvA A (w_store w5)).
  { exists r. rewrite R5, R4, R3, Rr. split; [reflexivity|repeat split; auto]. }
  assert (F5 : ts_floor A (w_store w5) = ts_floor A (w_store w4)
               /\ snap_floor A (w_store w5) = snap_floor A (w_store w4)
               /\ listed_floor A (w_store w5) = listed_floor A (w_store w4)).
  { unfold ts_floor, snap_floor, listed_floor. rewrite T5, S5. auto. }
  destruct F5 as (FT5 & FS5 & FL5).
  destruct resG as [t|cg ag]; inv H; cbn [rp_root rp_ts rp_snap].
  - split; [exact Inv5|]. split; [lia|]. split; [lia|]. split; [lia|].
    split; [repeat split; auto|].
    unfold ts_floor, snap_floor, listed_floor, listed_version. rewrite T5, T4, Tts, S5, Ssn, A3, A1, Vts, Vsn.
    repeat split.
  - split; [exact Inv5|]. repeat split; lia.
Qed.

(* what one successful cycle establishes, from any datastore *)
Lemma cycle_ok_establishes c s rp w' :
  run_cycle fixed c s = (Ok rp, w') ->
  st_root (w_store w') = Some (SDoc (rp_root rp))
  /\ st_ts (w_store w') = Some (SDoc (rp_ts rp))
  /\ st_snap (w_store w') = Some (SDoc (rp_snap rp))
  /\ root_verify (rp_root rp) 3 (ts_sigs (rp_ts rp)) = true
  /\ root_verify (rp_root rp) 1 (sn_sigs (rp_snap rp)) = true
  /\ final_root fixed c = Some (rp_root rp)
  /\ exists t0, st_tgt (w_store w') = Some (SDoc t0) /\ root_verify (rp_root rp) 2 (tg_sigs t0) = true
                /\ tg_version t0 = tg_version (rp_targets rp).
Proof.
  intro H. unfold run_cycle, cycle in H. set (w0 := world0 s (cy_fault c)) in *.
  unfold load_root in H.
  destruct (cy_shipped c) as [|r0| | |] eqn:Hship; try discriminate.
  destruct (root_verify r0 0 (r_sigs r0)) eqn:V0; cbn [negb] in H; [|discriminate].
  destruct (root_walk fixed (c_fuel (cy_cfg c)) (cy_cfg c) (cy_srv c) (r_version r0) r0 w0) as [[r|cw aw] w1] eqn:Hw;
    [|discriminate].
  pose proof (final_root_of_walk _ _ _ _ _ _ Hship V0 Hw) as Hfr.
  destruct (finish_root fixed (cy_cfg c) (cy_now c) (reference_root fixed r0 (w_store w0)) r w1) as [[rr|cr ar] w2] eqn:Hfinish;
    [|discriminate].
  pose proof (finish_root_atomic _ _ _ _ _ _ _ _ fixed_atomic Hfinish) as (_ & _ & _ & _ & _ & Ok2).
  destruct Ok2 as (-> & Rr & _ & _). specialize (Rr eq_refl).
  destruct (load_timestamp fixed (cy_cfg c) r (cy_srv c) (cy_now c) w2) as [[ts|ct at_] w3] eqn:HT; [|discriminate].
  pose proof (load_timestamp_atomic _ _ _ _ _ _ _ _ fixed_atomic HT) as (R3 & S3 & G3 & _ & Ok3).
  destruct Ok3 as (Tts & (_ & Vts & _ & _)).
  destruct (load_snapshot fixed (cy_cfg c) r ts (cy_srv c) (cy_now c) w3) as [[sn|cs_ as_] w4] eqn:HS; [|discriminate].
  pose proof (load_snapshot_atomic _ _ _ _ _ _ _ _ _ fixed_atomic HS) as (R4 & T4 & G4 & _ & Ok4).
  destruct Ok4 as (Ssn & (_ & Vsn & _ & _)).
  destruct (load_targets fixed (cy_cfg c) r sn (cy_srv c) (cy_now c) w4) as [[t|cg ag] w5] eqn:HG; [|discriminate].
  pose proof (load_targets_atomic _ _ _ _ _ _ _ _ _ fixed_atomic HG) as (R5 & T5 & S5 & _ & Ok5).
  destruct Ok5 as (t0 & Gt0 & (_ & Vt0 & _ & _) & Lf & _).
  inv H. cbn [rp_root rp_ts rp_snap rp_targets].
  rewrite R5, R4, R3, Rr, T5, T4, Tts, S5, Ssn. repeat split; auto.
  exists t0. repeat split; auto. destruct Lf as [->|(rs & ->)]; [reflexivity|].
  rewrite tg_set_roles_version. reflexivity.
Qed.

(* ---------------------------------------------------------------------------------------- *)
(* histories *)
Lemma run_hist_nth_S fx c rest s k :
  nth_error (run_hist fx (c :: rest) s) (S k)
  = nth_error (run_hist fx rest (w_store (snd (run_cycle fx c s)))) k.
Proof. reflexivity. Qed.

(* after the invariant holds, every later success is at or above the floors *)
Lemma later_online A : forall h s k rp w,
  InvA A s ->
  (forall k' c, (k' <= k)%nat -> nth_error h k' = Some c ->
                forall r, final_root fixed c = Some r -> online_same A r) ->
  nth_error (run_hist fixed h s) k = Some (Ok rp, w) ->
  ts_floor A s <= ts_version (rp_ts rp) /\ snap_floor A s <= sn_version (rp_snap rp)
  /\ listed_floor A s <= listed_version (rp_snap rp).
Proof.
  induction h as [|c rest IH]; intros s k rp w Inv Hall Hk; [destruct k; discriminate|].
  destruct (run_cycle fixed c s) as [res w1] eqn:E.
  assert (Hc : forall r, final_root fixed c = Some r -> online_same A r).
  { apply (Hall 0%nat c); [lia|reflexivity]. }
  pose proof (cycle_online A c s res w1 Inv Hc E) as (Inv1 & FT & FS & FL & Hok).
  destruct k as [|k].
  - cbn [run_hist nth_error] in Hk. rewrite E in Hk. inv Hk.
    destruct Hok as (_ & E1 & E2 & E3). rewrite <- E1, <- E2, <- E3. auto.
  - rewrite run_hist_nth_S, E in Hk. cbn [snd] in Hk.
    assert (Hall' : forall k' c', (k' <= k)%nat -> nth_error rest k' = Some c' ->
                                  forall r, final_root fixed c' = Some r -> online_same A r).
    { intros k' c' Hle Hn. apply (Hall (S k') c'); [lia|exact Hn]. }
    destruct (IH (w_store w1) k rp w Inv1 Hall' Hk) as (H1 & H2 & H3).
    split; [eapply N.le_trans; eassumption|split; eapply N.le_trans; eassumption].
Qed.

Theorem rollback_online : forall h s0 i j rp_i w_i rp_j w_j,
  (i < j)%nat ->
  nth_error (run_hist fixed h s0) i = Some (Ok rp_i, w_i) ->
  nth_error (run_hist fixed h s0) j = Some (Ok rp_j, w_j) ->
  (forall k c, (i < k <= j)%nat -> nth_error h k = Some c ->
               forall r, final_root fixed c = Some r -> online_same (rp_root rp_i) r) ->
  ts_version (rp_ts rp_i) <= ts_version (rp_ts rp_j)
  /\ sn_version (rp_snap rp_i) <= sn_version (rp_snap rp_j)
  /\ listed_version (rp_snap rp_i) <= listed_version (rp_snap rp_j).
Proof.
  induction h as [|c rest IH]; intros s0 i j rp_i w_i rp_j w_j Hij Hi Hj Hall; [destruct i; discriminate|].
  destruct j as [|j]; [lia|].
  destruct i as [|i].
  - cbn [run_hist nth_error] in Hi. inv Hi.
    rewrite run_hist_nth_S in Hj. rewrite H0 in Hj. cbn [snd] in Hj.
    pose proof (cycle_ok_establishes _ _ _ _ H0) as (Rr & Tt & Ss & Vt & Vs & _ & _).
    set (A := rp_root rp_i) in *.
    assert (Inv : InvA A (w_store w_i)) by (exists A; split; [exact Rr|apply online_same_refl]).
    assert (Hall' : forall k' c', (k' <= j)%nat -> nth_error rest k' = Some c' ->
                                  forall r, final_root fixed c' = Some r -> online_same A r).
    { intros k' c' Hle Hn. apply (Hall (S k') c'); [lia|exact Hn]. }
    destruct (later_online A rest (w_store w_i) j rp_j w_j Inv Hall' Hj) as (H1 & H2 & H3).
    unfold ts_floor, snap_floor, listed_floor, listed_version in *. rewrite Tt, Vt in H1. rewrite Ss, Vs in H2, H3.
    auto.
  - rewrite run_hist_nth_S in Hi, Hj.
    apply (IH (w_store (snd (run_cycle fixed c s0))) i j rp_i w_i rp_j w_j); [lia|exact Hi|exact Hj|].
    intros k c' Hk Hn. apply (Hall (S k) c'); [lia|exact Hn].
Qed.

(* ---- the targets role: its stored file is never deleted; only its own authorisation matters ---- *)
Lemma cycle_targets A c s res w' :
  (forall r, final_root fixed c = Some r -> auth_eq 2 A r) ->
  run_cycle fixed c s = (res, w') ->
  tgt_floor A s <= tgt_floor A (w_store w')
  /\ match res with
     | Ok rp => tgt_floor A (w_store w') = tg_version (rp_targets rp)
     | Err _ _ => True
     end.
Proof.
  intros Hfin H. unfold run_cycle, cycle in H. set (w0 := world0 s (cy_fault c)) in *.
  assert (Trivial : forall (w1 : world), st_tgt (w_store w1) = st_tgt s ->
            tgt_floor A s <= tgt_floor A (w_store w1)).
  { intros w1 G. unfold tgt_floor. rewrite G. lia. }
  unfold load_root in H.
  destruct (cy_shipped c) as [|r0| | |] eqn:Hship; try (inv H; split; [apply Trivial; reflexivity|exact I]).
  destruct (root_verify r0 0 (r_sigs r0)) eqn:V0; cbn [negb] in H.
  2:{ inv H. split; [apply Trivial; reflexivity|exact I]. }
  destruct (root_walk fixed (c_fuel (cy_cfg c)) (cy_cfg c) (cy_srv c) (r_version r0) r0 w0) as [[r|cw aw] w1] eqn:Hw.
  2:{ inv H. apply root_walk_store in Hw as (Sw & _). split; [apply Trivial; rewrite Sw; reflexivity|exact I]. }
  pose proof (final_root_of_walk _ _ _ _ _ _ Hship V0 Hw) as Hfr. specialize (Hfin r Hfr).
  apply root_walk_store in Hw as (Sw & _).
  destruct (finish_root fixed (cy_cfg c) (cy_now c) (reference_root fixed r0 (w_store w0)) r w1) as [resR w2] eqn:Hfinish.
  pose proof (finish_root_atomic _ _ _ _ _ _ _ _ fixed_atomic Hfinish) as (G2 & _ & _ & _ & _ & Ok2).
  rewrite Sw in G2. cbn [w0 world0 w_store] in G2.
  destruct resR as [rr|cr ar].
  2:{ inv H. split; [apply Trivial, G2|exact I]. }
  destruct Ok2 as (-> & _).
  destruct (load_timestamp fixed (cy_cfg c) r (cy_srv c) (cy_now c) w2) as [resT w3] eqn:HT.
  pose proof (load_timestamp_atomic _ _ _ _ _ _ _ _ fixed_atomic HT) as (_ & _ & G3 & _ & _).
  destruct resT as [ts|ct at_].
  2:{ inv H. split; [apply Trivial; congruence|exact I]. }
  destruct (load_snapshot fixed (cy_cfg c) r ts (cy_srv c) (cy_now c) w3) as [resS w4] eqn:HS.
  pose proof (load_snapshot_atomic _ _ _ _ _ _ _ _ _ fixed_atomic HS) as (_ & _ & G4 & _ & _).
  destruct resS as [sn|cs_ as_].
  2:{ inv H. split; [apply Trivial; congruence|exact I]. }
  destruct (load_targets fixed (cy_cfg c) r sn (cy_srv c) (cy_now c) w4) as [resG w5] eqn:HG.
  pose proof (load_targets_atomic _ _ _ _ _ _ _ _ _ fixed_atomic HG) as (_ & _ & _ & G5 & Ok5).
  assert (G4s : st_tgt (w_store w4) = st_tgt s) by congruence.
  assert (Mono : tgt_floor A s <= tgt_floor A (w_store w5)).
  { destruct G5 as [G5|(t0 & G5 & (_ & Vt & Old & _))].
    - apply Trivial. congruence.
    - unfold tgt_floor at 2. rewrite G5, Hfin, Vt. unfold tgt_floor. rewrite <- G4s.
      destruct (st_tgt (w_store w4)) as [[|old]|] eqn:Eo; try lia.
      rewrite Hfin. destruct (root_verify r 2 (tg_sigs old)) eqn:Vo; [|lia]. apply (Old old eq_refl Vo). }
  destruct resG as [t|cg ag]; inv H; split; auto.
  destruct Ok5 as (t0 & Gt0 & (_ & Vt0 & _ & _) & Lf & _). cbn [rp_targets].
  unfold tgt_floor. rewrite Gt0, Hfin, Vt0.
  destruct Lf as [->|(rs & ->)]; [reflexivity|]. rewrite tg_set_roles_version. reflexivity.
Qed.

Lemma later_targets A : forall h s k rp w,
  (forall k' c, (k' <= k)%nat -> nth_error h k' = Some c ->
                forall r, final_root fixed c = Some r -> auth_eq 2 A r) ->
  nth_error (run_hist fixed h s) k = Some (Ok rp, w) ->
  tgt_floor A s <= tg_version (rp_targets rp).
Proof.
  induction h as [|c rest IH]; intros s k rp w Hall Hk; [destruct k; discriminate|].
  destruct (run_cycle fixed c s) as [res w1] eqn:E.
  assert (Hc : forall r, final_root fixed c = Some r -> auth_eq 2 A r).
  { apply (Hall 0%nat c); [lia|reflexivity]. }
  pose proof (cycle_targets A c s res w1 Hc E) as (F & Hok).
  destruct k as [|k].
  - cbn [run_hist nth_error] in Hk. rewrite E in Hk. inv Hk. lia.
  - rewrite run_hist_nth_S, E in Hk. cbn [snd] in Hk.
    assert (Hall' : forall k' c', (k' <= k)%nat -> nth_error rest k' = Some c' ->
                                  forall r, final_root fixed c' = Some r -> auth_eq 2 A r).
    { intros k' c' Hle Hn. apply (Hall (S k') c'); [lia|exact Hn]. }
    pose proof (IH (w_store w1) k rp w Hall' Hk). lia.
Qed.

Theorem rollback_targets : forall h s0 i j rp_i w_i rp_j w_j,
  (i < j)%nat ->
  nth_error (run_hist fixed h s0) i = Some (Ok rp_i, w_i) ->
  nth_error (run_hist fixed h s0) j = Some (Ok rp_j, w_j) ->
  (forall k c, (i < k <= j)%nat -> nth_error h k = Some c ->
               forall r, final_root fixed c = Some r -> auth_eq 2 (rp_root rp_i) r) ->
  tg_version (rp_targets rp_i) <= tg_version (rp_targets rp_j).
Proof.
  induction h as [|c rest IH]; intros s0 i j rp_i w_i rp_j w_j Hij Hi Hj Hall; [destruct i; discriminate|].
  destruct j as [|j]; [lia|].
  destruct i as [|i].
  - cbn [run_hist nth_error] in Hi. inv Hi.
    rewrite run_hist_nth_S in Hj. rewrite H0 in Hj. cbn [snd] in Hj.
    pose proof (cycle_ok_establishes _ _ _ _ H0) as (_ & _ & _ & _ & _ & _ & t0 & Gt & Vt & Ev).
    set (A := rp_root rp_i) in *.
    assert (Hall' : forall k' c', (k' <= j)%nat -> nth_error rest k' = Some c' ->
                                  forall r, final_root fixed c' = Some r -> auth_eq 2 A r).
    { intros k' c' Hle Hn. apply (Hall (S k') c'); [lia|exact Hn]. }
    pose proof (later_targets A rest (w_store w_i) j rp_j w_j Hall' Hj) as H1.
    unfold tgt_floor in H1. rewrite Gt, Vt in H1. lia.
  - rewrite run_hist_nth_S in Hi, Hj.
    apply (IH (w_store (snd (run_cycle fixed c s0))) i j rp_i w_i rp_j w_j); [lia|exact Hi|exact Hj|].
    intros k c' Hk Hn. apply (Hall (S k) c'); [lia|exact Hn].
Qed.

(* ---------------------------------------------------------------------------------------- *)
(* C14: rotation of an online key clears the stored timestamp and snapshot, after which no stored
   version constrains what is accepted *)
Lemma rotation_clears cfg r0 srv now w r w1 :
  load_root fixed cfg (CRoot r0) srv now w = (Ok r, w1) ->
  rotated (reference_root fixed r0 (w_store w)) r = true ->
  st_ts (w_store w1) = None /\ st_snap (w_store w1) = None /\ st_root (w_store w1) = Some (SDoc r).
Proof.
  intros H Hrot. unfold load_root in H.
  destruct (negb (root_verify r0 0 (r_sigs r0))); [discriminate|].
  destruct (root_walk fixed (c_fuel cfg) cfg srv (r_version r0) r0 w) as [[r'|c a] w0] eqn:Hw; [|discriminate].
  pose proof (finish_root_atomic _ _ _ _ _ _ _ _ fixed_atomic H) as (_ & _ & _ & _ & _ & (-> & Rr & Cl & _)).
  destruct (Cl Hrot). repeat split; auto.
Qed.

Lemma no_older_without_stored_ts fx cfg r srv now w a w' :
  st_ts (w_store w) = None -> load_timestamp fx cfg r srv now w <> (Err E_Older a, w').
Proof.
  intros Hn H. unfold load_timestamp in H. rewrite logged_store, Hn in H.
  destruct (fetch srv name_timestamp (c_max_timestamp_size cfg) None) as [file|sub]; [|discriminate].
  destruct (f_body file) as [| |ts| |]; try discriminate.
  destruct (negb (root_verify r 3 (ts_sigs ts))); [discriminate|].
  destruct (check_expired fx cfg now (ts_expires ts) 3 (logged w name_timestamp)) as [[u|c0 a0] w2] eqn:E.
  - destruct (ds_op fx w2 _ _) as [[|c1 a1] w3] eqn:E3; [discriminate|].
    inv H. unfold ds_op in E3. repeat break_hyp E3; inv E3.
  - inv H. apply check_expired_err in E as (_ & [(E & _)|[E|[E|E]]]); discriminate.
Qed.

Lemma no_older_without_stored_snap fx cfg r ts srv now w a w' :
  st_snap (w_store w) = None -> load_snapshot fx cfg r ts srv now w <> (Err E_Older a, w').
Proof.
  intros Hn H. unfold load_snapshot in H.
  destruct (lookup name_snapshot (ts_meta ts)) as [m|]; [|discriminate].
  match type of H with context [fetch ?a ?b ?c ?d] => destruct (fetch a b c d) as [file|sub] end; [|discriminate].
  destruct (f_body file) as [| | |sn|]; try discriminate.
  destruct (negb (sn_version sn =? m_version m)); [discriminate|].
  destruct (negb (root_verify r 1 (sn_sigs sn))); [discriminate|].
  rewrite logged_store, Hn in H.
  match type of H with context [check_expired ?a ?b ?c ?d ?e ?f] =>
    destruct (check_expired a b c d e f) as [[u|c0 a0] w2] eqn:E end.
  - destruct (ds_op fx w2 _ _) as [[|c1 a1] w3] eqn:E3; [discriminate|].
    inv H. unfold ds_op in E3. repeat break_hyp E3; inv E3.
  - inv H. apply check_expired_err in E as (_ & [(E & _)|[E|[E|E]]]); discriminate.
Qed.

(* ---------------------------------------------------------------------------------------- *)
(* the statements, parametrised by the variant of the code, and their failure before the repairs *)
Definition rollback_online_stmt (fx : fixes) : Prop :=
  forall h s0 i j rp_i w_i rp_j w_j,
  (i < j)%nat ->
  nth_error (run_hist fx h s0) i = Some (Ok rp_i, w_i) ->
  nth_error (run_hist fx h s0) j = Some (Ok rp_j, w_j) ->
  (forall k c, (i < k <= j)%nat -> nth_error h k = Some c ->
               forall r, final_root fx c = Some r -> online_same (rp_root rp_i) r) ->
  ts_version (rp_ts rp_i) <= ts_version (rp_ts rp_j)
  /\ sn_version (rp_snap rp_i) <= sn_version (rp_snap rp_j)
  /\ listed_version (rp_snap rp_i) <= listed_version (rp_snap rp_j).

Lemma rollback_online_fixed : rollback_online_stmt fixed.
Proof. exact rollback_online. Qed.

(* witness shared by the two refutations: shipped root v1 (timestamp key 3), repository root v2
   (timestamp key 4); first timestamp version 5, then a replayed version 4 *)
Definition wk (k : N) : sig := {| s_claim := k; s_by := k; s_ok := true |}.
Definition w_roles (tsk : N) : list (N * rolekeys) :=
  [(0, {| rk_keyids := [0]; rk_threshold := 1 |}); (1, {| rk_keyids := [1]; rk_threshold := 1 |});
   (2, {| rk_keyids := [2]; rk_threshold := 1 |}); (3, {| rk_keyids := [tsk]; rk_threshold := 1 |})].
Definition w_root (v tsk : N) : root :=
  {| r_version := v; r_expires := 100; r_cs := false; r_keys := [0; 1; 2; tsk];
     r_roles := w_roles tsk; r_sigs := [wk 0] |}.
Definition w_targets : targets := Targets 1 100 [] false [] [] [wk 2].
Definition w_snap (v : N) : snapshot :=
  {| sn_version := v; sn_expires := 100;
     sn_meta := [(name_targets, {| m_version := 1; m_length := None; m_hash := None |})]; sn_sigs := [wk 1] |}.
Definition w_ts (v sv tsk : N) : timestamp :=
  {| ts_version := v; ts_expires := 100;
     ts_meta := [(name_snapshot, {| m_version := sv; m_length := None; m_hash := None |})]; ts_sigs := [wk tsk] |}.
Definition w_file (c : content) : served := Served {| f_len := Some 10; f_digest := 1; f_fail := 0; f_body := c |}.
Definition w_cfg : config :=
  {| c_max_root_size := 100; c_max_targets_size := 100; c_max_timestamp_size := 100;
     c_max_snapshot_size := 100; c_max_root_updates := 10; c_enforce := false; c_fuel := 20 |}.
Definition w_srv (root2 : bool) (v tsk : N) : server :=
  (if root2 then [(root_json 2, w_file (CRoot (w_root 2 tsk)))] else [])
  ++ [(name_timestamp, w_file (CTs (w_ts v 5 tsk))); (name_snapshot, w_file (CSnap (w_snap 5)));
      (name_targets, w_file (CTargets w_targets))].
Definition w_cyc (root2 : bool) (v tsk : N) (flt : option (nat * N)) : cyc :=
  {| cy_cfg := w_cfg; cy_shipped := CRoot (w_root 1 3); cy_srv := w_srv root2 v tsk; cy_now := 0;
     cy_fault := flt |}.

Definition results (fx : fixes) (h : list cyc) : list (option (N * N)) :=
  map (fun rw => match fst rw with
                 | Ok rp => Some (r_version (rp_root rp), ts_version (rp_ts rp))
                 | Err _ _ => None
                 end) (run_hist fx h store0).

(* F5: before the repair, step 1.9 compared with the shipped root: the stored timestamp is deleted on
   every cycle and a replayed older timestamp is accepted *)
Definition f5_history : list cyc := [w_cyc true 5 4 None; w_cyc true 4 4 None].
Lemma f5_original : results original f5_history = [Some (2, 5); Some (2, 4)].
Proof. vm_compute. reflexivity. Qed.
Lemma f5_fixed : results fixed f5_history = [Some (2, 5); None].
Proof. vm_compute. reflexivity. Qed.

Lemma rollback_online_original_refuted : ~ rollback_online_stmt original.
Proof.
  intro H.
  destruct (run_hist original f5_history store0) as [|[r1 w1] [|[r2 w2] l]] eqn:E; try (vm_compute in E; discriminate).
  assert (E1 : nth_error (run_hist original f5_history store0) 0 = Some (r1, w1)) by (rewrite E; reflexivity).
  assert (E2 : nth_error (run_hist original f5_history store0) 1 = Some (r2, w2)) by (rewrite E; reflexivity).
  pose proof f5_original as R. unfold results in R. rewrite E in R. cbn [map fst] in R.
  destruct r1 as [rp1|]; [|discriminate]. destruct r2 as [rp2|]; [|discriminate].
  inversion R as [[Hv1 Ht1 Hv2 Ht2]].
  specialize (H f5_history store0 0%nat 1%nat rp1 w1 rp2 w2 (le_n 1) E1 E2).
  assert (Hs : rp_root rp1 = w_root 2 4).
  { assert (X : option_map (fun rw => match fst rw with Ok rp => Some (rp_root rp) | Err _ _ => None end)
                           (nth_error (run_hist original f5_history store0) 0) = Some (Some (w_root 2 4)))
      by (vm_compute; reflexivity).
    rewrite E1 in X. cbn in X. inversion X. reflexivity. }
  destruct H as (Hts & _).
  - intros k c Hk Hn r Hr. assert (k = 1%nat) by lia. subst k. cbn in Hn. inv Hn.
    assert (r = w_root 2 4) by (vm_compute in Hr; inv Hr; reflexivity). subst r. rewrite Hs.
    apply online_same_refl.
  - lia.
Qed.

(* F9: with truncate-and-write, killing the client in the middle of the write of timestamp.json
   leaves an unparsable file, which is ignored: the replayed older timestamp is then accepted *)
Definition not_atomic : fixes := Build_fixes true true true true true false true.
Definition f9_history : list cyc :=
  [w_cyc false 5 3 None; w_cyc false 6 3 (Some (1%nat, 2)); w_cyc false 4 3 None].
Lemma f9_not_atomic : results not_atomic f9_history = [Some (1, 5); None; Some (1, 4)].
Proof. vm_compute. reflexivity. Qed.
Lemma f9_fixed : results fixed f9_history = [Some (1, 5); None; None].
Proof. vm_compute. reflexivity. Qed.

Lemma rollback_online_not_atomic_refuted : ~ rollback_online_stmt not_atomic.
Proof.
  intro H.
  destruct (run_hist not_atomic f9_history store0) as [|[r1 w1] [|[r2 w2] [|[r3 w3] l]]] eqn:E;
    try (vm_compute in E; discriminate).
  assert (E1 : nth_error (run_hist not_atomic f9_history store0) 0 = Some (r1, w1)) by (rewrite E; reflexivity).
  assert (E3 : nth_error (run_hist not_atomic f9_history store0) 2 = Some (r3, w3)) by (rewrite E; reflexivity).
  pose proof f9_not_atomic as R. unfold results in R. rewrite E in R. cbn [map fst] in R.
  destruct r1 as [rp1|]; [|discriminate]. destruct r2 as [rp2|]; [discriminate|].
  destruct r3 as [rp3|]; [|discriminate].
  inversion R as [[Hv1 Ht1 Hv3 Ht3]].
  assert (Hs : rp_root rp1 = w_root 1 3).
  { assert (X : option_map (fun rw => match fst rw with Ok rp => Some (rp_root rp) | Err _ _ => None end)
                           (nth_error (run_hist not_atomic f9_history store0) 0) = Some (Some (w_root 1 3)))
      by (vm_compute; reflexivity).
    rewrite E1 in X. cbn in X. inversion X. reflexivity. }
  assert (Hij : (0 < 2)%nat) by lia.
  specialize (H f9_history store0 0%nat 2%nat rp1 w1 rp3 w3 Hij E1 E3).
  destruct H as (Hts & _).
  - intros k c Hk Hn r Hr. rewrite Hs.
    assert (k = 1%nat \/ k = 2%nat) as [-> | ->] by lia; cbn in Hn; inv Hn;
      (assert (r = w_root 1 3) by (vm_compute in Hr; inv Hr; reflexivity)); subst r; apply online_same_refl.
  - lia.
Qed.
