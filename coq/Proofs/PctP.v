From ToughV Require Import Model.Base Model.Pct Proofs.BaseP.
From Coq Require Import ZifyBool ZifyN ZifyNat.
Ltac Zify.zify_post_hook ::= Z.div_mod_to_equations.

Lemma unreserved_not_pct c : unreserved c = true -> (c =? 37) = false.
Proof.
  intro H. destruct (c =? 37) eqn:E; [|reflexivity].
  apply N.eqb_eq in E. subst. discriminate.
Qed.

Lemma unhex_hexdigit d : d < 16 -> unhex_up (hexdigit_up d) = d.
Proof.
  unfold unhex_up, hexdigit_up. intros. destruct (d <? 10) eqn:E.
  - destruct (48 + d <=? 57) eqn:E2; lia.
  - destruct (55 + d <=? 57) eqn:E2; lia.
Qed.

Lemma pct_decode_encode s : Forall (fun c => c < 256) s -> pct_decode (pct_encode s) = s.
Proof.
  induction 1 as [|c s Hc Hs IH]; [reflexivity|].
  cbn [pct_encode]. unfold pct_byte. destruct (unreserved c) eqn:U.
  - cbn [app pct_decode]. rewrite (unreserved_not_pct _ U). f_equal. exact IH.
  - cbn [app pct_decode]. change (37 =? 37) with true. cbv iota.
    rewrite !unhex_hexdigit by lia. rewrite IH. f_equal. lia.
Qed.

Theorem pct_encode_injective s1 s2 :
  Forall (fun c => c < 256) s1 -> Forall (fun c => c < 256) s2 ->
  pct_encode s1 = pct_encode s2 -> s1 = s2.
Proof.
  intros H1 H2 E. rewrite <- (pct_decode_encode _ H1), <- (pct_decode_encode _ H2), E. reflexivity.
Qed.

Lemma hexdigit_unreserved d : d < 16 -> unreserved (hexdigit_up d) = true.
Proof. unfold hexdigit_up, unreserved, is_alnum. intros. destruct (d <? 10) eqn:E; lia. Qed.

Lemma pct_encode_chars s : Forall (fun c => c < 256) s ->
  Forall (fun c => fname_char c = true) (pct_encode s).
Proof.
  induction 1 as [|c s Hc Hs IH]; [constructor|].
  cbn [pct_encode]. apply Forall_app. split; [|exact IH].
  unfold pct_byte. destruct (unreserved c) eqn:U.
  - constructor; [unfold fname_char; rewrite U; reflexivity|constructor].
  - constructor; [reflexivity|].
    constructor; [unfold fname_char; rewrite hexdigit_unreserved by lia; reflexivity|].
    constructor; [unfold fname_char; rewrite hexdigit_unreserved by lia; reflexivity|].
    constructor.
Qed.

Lemma digit_fname_char c : is_digit c = true -> fname_char c = true.
Proof. unfold is_digit, fname_char, unreserved, is_alnum. lia. Qed.

Lemma role_filename_chars cs v name : Forall (fun c => c < 256) name ->
  Forall (fun c => fname_char c = true) (role_filename cs v name).
Proof.
  intro H. unfold role_filename. repeat (apply Forall_app; split).
  - destruct cs; [|constructor]. apply Forall_app. split.
    + eapply Forall_impl; [|apply dec_digits]. apply digit_fname_char.
    + repeat constructor.
  - apply pct_encode_chars, H.
  - repeat constructor.
Qed.

(* no '/', no NUL, no backslash: a plain directory entry *)
Lemma fname_char_plain c : fname_char c = true -> c <> 47 /\ c <> 0 /\ c <> 92.
Proof. unfold fname_char, unreserved, is_alnum. lia. Qed.

Lemma role_filename_ends cs v name : exists p, role_filename cs v name = p ++ dot_json.
Proof. unfold role_filename. eexists. rewrite app_assoc. reflexivity. Qed.

Lemma ends_dot_json_not_dots p : p ++ dot_json <> [46] /\ p ++ dot_json <> [46; 46].
Proof.
  split; intro H; apply (f_equal (@length _)) in H; rewrite app_length in H; cbn in H; lia.
Qed.

(* splitting at the first non-digit *)
Lemma digits_dot_split a : forall b ra rb,
  Forall (fun c => is_digit c = true) a -> Forall (fun c => is_digit c = true) b ->
  a ++ 46 :: ra = b ++ 46 :: rb -> a = b /\ ra = rb.
Proof.
  induction a as [|x a IH]; intros [|y b] ra rb Ha Hb E; cbn [app] in E.
  - inversion E. auto.
  - inversion E; subst. inversion Hb; subst. discriminate.
  - inversion E; subst. inversion Ha; subst. discriminate.
  - inversion E; subst. inversion Ha; inversion Hb; subst.
    destruct (IH b ra rb) as [-> ->]; auto.
Qed.

Theorem role_filename_injective cs v1 v2 n1 n2 :
  Forall (fun c => c < 256) n1 -> Forall (fun c => c < 256) n2 ->
  role_filename cs v1 n1 = role_filename cs v2 n2 -> n1 = n2 /\ (cs = true -> v1 = v2).
Proof.
  intros H1 H2 E. unfold role_filename in E. destruct cs.
  - rewrite <- !app_assoc in E. cbn [app] in E.
    apply digits_dot_split in E as [Ev E]; try apply dec_digits.
    apply app_inv_tail in E. split; [apply pct_encode_injective; assumption|].
    intros _. apply dec_inj, Ev.
  - cbn [app] in E. apply app_inv_tail in E. split; [apply pct_encode_injective; assumption|].
    discriminate.
Qed.

Lemma role_filename_plain cs v name : Forall (fun c => c < 256) name ->
  Forall (fun c => c <> 47 /\ c <> 0 /\ c <> 92) (role_filename cs v name)
  /\ role_filename cs v name <> [] /\ role_filename cs v name <> [46]
  /\ role_filename cs v name <> [46; 46].
Proof.
  intro H. split.
  - eapply Forall_impl; [|apply role_filename_chars, H]. apply fname_char_plain.
  - destruct (role_filename_ends cs v name) as [p ->].
    destruct (ends_dot_json_not_dots p) as [A B]. repeat split; auto.
    intro E. apply (f_equal (@length _)) in E. rewrite app_length in E. cbn in E. lia.
Qed.

Lemma role_filename_distinct cs v1 v2 n1 n2 :
  Forall (fun c => c < 256) n1 -> Forall (fun c => c < 256) n2 ->
  n1 <> n2 -> role_filename cs v1 n1 <> role_filename cs v2 n2.
Proof. intros H1 H2 N E. apply N. eapply role_filename_injective; eassumption. Qed.

Lemma role_filename_cs_injective v1 v2 n1 n2 :
  Forall (fun c => c < 256) n1 -> Forall (fun c => c < 256) n2 ->
  role_filename true v1 n1 = role_filename true v2 n2 -> n1 = n2 /\ v1 = v2.
Proof.
  intros H1 H2 E. destruct (role_filename_injective _ _ _ _ _ H1 H2 E) as [A B]. auto.
Qed.
