From ToughV Require Import Model.Base Model.Editor Proofs.BaseP.

Lemma get_put k v m k' : get k' (put k v m) = if bytes_eqb k' k then Some v else get k' m.
Proof.
  induction m as [|[a b] m IH]; cbn [put get].
  - destruct (bytes_eqb k' k); reflexivity.
  - destruct (bytes_eqb k a) eqn:E; cbn [get].
    + apply bytes_eqb_eq in E. subst a. destruct (bytes_eqb k' k); reflexivity.
    + rewrite IH. destruct (bytes_eqb k' k) eqn:E2; [|reflexivity].
      apply bytes_eqb_eq in E2. subst k'. rewrite E. reflexivity.
Qed.

(* looking a name up after the merge: the last added entry of that name if any, else the old one *)
Fixpoint last_added (k : bytes) (added : list (bytes * N)) (acc : option N) : option N :=
  match added with
  | [] => acc
  | (k', v) :: r => last_added k r (if bytes_eqb k k' then Some v else acc)
  end.

Lemma last_added_acc k added : forall acc,
  last_added k added acc = match last_added k added None with Some v => Some v | None => acc end.
Proof.
  induction added as [|[a b] r IH]; intro acc; cbn [last_added]; [reflexivity|].
  destruct (bytes_eqb k a).
  - rewrite (IH (Some b)). destruct (last_added k r None); reflexivity.
  - apply IH.
Qed.

Lemma get_merge k added : forall existing,
  get k (merge existing added) = match last_added k added None with Some v => Some v | None => get k existing end.
Proof.
  unfold merge. induction added as [|[a b] r IH]; intro existing; cbn [fold_left last_added fst snd]; [reflexivity|].
  rewrite IH, get_put. rewrite (last_added_acc k r (if bytes_eqb k a then Some b else None)).
  destruct (last_added k r None); [reflexivity|]. destruct (bytes_eqb k a); reflexivity.
Qed.

(* C17: nothing is dropped or altered merely by passing through an update *)
Theorem update_preserves v added :
  let v' := update true v added in
  rv_deleg v' = rv_deleg v
  /\ rv_targets_extra v' = rv_targets_extra v
  /\ rv_snapshot_extra v' = rv_snapshot_extra v
  /\ rv_timestamp_extra v' = rv_timestamp_extra v
  /\ (forall name, get name (rv_entries v') =
                   match last_added name added None with Some e => Some e | None => get name (rv_entries v) end).
Proof. cbn. repeat split. intro name. apply get_merge. Qed.

(* before the repair of F10 the unrecognised members of snapshot.json were lost *)
Lemma update_original_refuted :
  exists v added, rv_snapshot_extra (update false v added) <> rv_snapshot_extra v.
Proof.
  exists {| rv_entries := []; rv_deleg := 0; rv_targets_extra := []; rv_snapshot_extra := [([120], 1)];
            rv_timestamp_extra := [] |}, [].
  cbn. discriminate.
Qed.
