(* Url::join + FilesystemTransport against Path::join: on plain names the file that is opened is the
   file that was put (Model/Url.v). *)
From ToughV Require Import Model.Base Model.Pct Model.Sig Model.Glob Model.Deleg Model.Client Model.Stream Model.Read
     Model.TName Model.Save Model.Url Proofs.BaseP Proofs.CacheTargetP.

Lemma forallb_rev {A} (P : A -> bool) l : forallb P (rev l) = forallb P l.
Proof.
  induction l as [|x l IH]; cbn [rev forallb]; [reflexivity|].
  rewrite forallb_app, IH. cbn [forallb]. rewrite andb_true_r. apply andb_comm.
Qed.

(* the bytes of the components are the bytes of the string other than '/' *)
Lemma split_slash_chars (P : byte -> bool) s : forall cur,
  forallb (forallb P) (split_slash cur s) = forallb P cur && forallb (fun c => P c || (c =? 47)) s.
Proof.
  induction s as [|c r IH]; intros cur; cbn [split_slash forallb].
  - rewrite forallb_rev. reflexivity.
  - destruct (c =? 47) eqn:E.
    + cbn [forallb]. rewrite forallb_rev, IH. cbn [forallb]. rewrite orb_true_r. reflexivity.
    + rewrite IH. cbn [forallb]. rewrite orb_false_r.
      destruct (P c), (forallb P cur); reflexivity.
Qed.

Lemma ltrim_id s : match s with c :: _ => c0_or_space c = false | [] => True end -> ltrim s = s.
Proof. destruct s as [|c r]; cbn [ltrim]; [reflexivity|]. intros ->. reflexivity. Qed.

Lemma url_input_id s : forallb (fun c => 32 <? c) s = true -> url_input s = s.
Proof.
  intros Hs. unfold url_input.
  assert (Hhd : forall t, forallb (fun c => 32 <? c) t = true -> ltrim t = t).
  { intros t Ht. apply ltrim_id. destruct t as [|c r]; [exact I|].
    cbn [forallb] in Ht. apply andb_true_iff in Ht as [Hc _]. unfold c0_or_space.
    apply N.ltb_lt in Hc. apply N.leb_gt. exact Hc. }
  rewrite (Hhd s Hs). rewrite Hhd by (rewrite forallb_rev; exact Hs). rewrite rev_involutive.
  induction s as [|c r IH]; cbn [filter]; [reflexivity|].
  cbn [forallb] in Hs. apply andb_true_iff in Hs as [Hc Hr]. apply N.ltb_lt in Hc.
  assert (tab_or_newline c = false) as ->.
  { unfold tab_or_newline. rewrite !orb_false_iff. repeat split; apply N.eqb_neq; lia. }
  cbn [negb]. f_equal. apply IH. exact Hr.
Qed.

Lemma url_segs_split s : forall cur,
  forallb (fun c => negb (c =? 92) && negb (is_stop c)) s = true -> url_segs cur s = split_slash cur s.
Proof.
  induction s as [|c r IH]; intros cur Hs; cbn [url_segs split_slash]; [reflexivity|].
  cbn [forallb] in Hs. apply andb_true_iff in Hs as [Hc Hr]. apply andb_true_iff in Hc as [H92 Hst].
  apply negb_true_iff in H92, Hst. rewrite Hst. unfold is_seg_sep. rewrite H92, orb_false_r.
  destruct (c =? 47); rewrite IH by exact Hr; reflexivity.
Qed.

Lemma plain_char_facts c : plain_char c = true ->
  in_path_set c = false /\ (c =? 92) = false /\ is_stop c = false /\ (32 <? c) = true.
Proof.
  unfold plain_char. intros H. apply andb_true_iff in H as [H1 H2].
  apply negb_true_iff in H1, H2. repeat split; try assumption.
  - unfold in_path_set in H1. unfold is_stop. rewrite !orb_false_iff in H1. rewrite orb_false_iff. tauto.
  - unfold in_path_set in H1. rewrite !orb_false_iff in H1.
    destruct H1 as [[[[[[[[[H _] _] _] _] _] _] _] _] _]. apply N.leb_gt in H. apply N.ltb_lt. exact H.
Qed.

Lemma enc_seg_plain s : forallb plain_char s = true -> enc_seg s = s.
Proof.
  induction s as [|c r IH]; cbn [enc_seg forallb]; [reflexivity|]. intros H.
  apply andb_true_iff in H as [Hc Hr]. apply plain_char_facts in Hc as [Hc _].
  unfold enc_byte. rewrite Hc. cbn [app]. f_equal. apply IH. exact Hr.
Qed.

Lemma plain_seg_facts s : plain_seg s = true ->
  is_empty s = false /\ forallb plain_char s = true /\ single_dot s = false /\ double_dot s = false
  /\ is_drive s = false.
Proof.
  unfold plain_seg. rewrite !andb_true_iff, !negb_true_iff. tauto.
Qed.

Lemma walk_plain segs : forall stack, segs <> [] -> forallb plain_seg segs = true ->
  walk stack segs = rev stack ++ segs.
Proof.
  induction segs as [|s r IH]; intros stack Hne Hall; [contradiction|].
  cbn [forallb] in Hall. apply andb_true_iff in Hall as [Hs Hr].
  apply plain_seg_facts in Hs as (_ & Hch & Hsd & Hdd & _).
  destruct r as [|s2 r2].
  - cbn [walk]. rewrite (enc_seg_plain s Hch), Hdd, Hsd. cbn [rev]. reflexivity.
  - change (walk stack (s :: s2 :: r2)) with
      (let e := enc_seg s in if double_dot e then walk (tl stack) (s2 :: r2)
                             else if single_dot e then walk stack (s2 :: r2)
                             else walk (e :: stack) (s2 :: r2)).
    cbv zeta. rewrite (enc_seg_plain s Hch), Hdd, Hsd.
    rewrite IH by (try discriminate; exact Hr). cbn [rev]. rewrite <- app_assoc. reflexivity.
Qed.

Lemma quirk_plain segs : forall stack, stack <> [] -> forallb plain_seg segs = true -> quirk stack segs = false.
Proof.
  induction segs as [|s r IH]; intros stack Hne Hall; [reflexivity|].
  cbn [forallb] in Hall. apply andb_true_iff in Hall as [Hs Hr].
  apply plain_seg_facts in Hs as (_ & Hch & Hsd & Hdd & _).
  cbn [quirk]. rewrite (enc_seg_plain s Hch), Hdd, Hsd.
  destruct stack as [|x st]; [contradiction|]. cbn [orb]. apply IH; [discriminate | exact Hr].
Qed.

Lemma existsb_false_forallb {A} (P Q : A -> bool) l :
  (forall x, Q x = true -> P x = false) -> forallb Q l = true -> existsb P l = false.
Proof.
  intros HPQ. induction l as [|x l IH]; cbn [forallb existsb]; [reflexivity|].
  intros H. apply andb_true_iff in H as [Hx Hl]. rewrite (HPQ x Hx), IH by exact Hl. reflexivity.
Qed.

Definition nonempty_comps (l : list bytes) : bool := forallb (fun c => negb (is_empty c)) l.

Lemma filter_nonempty_id l : nonempty_comps l = true -> filter (fun c => negb (is_empty c)) l = l.
Proof.
  induction l as [|x l IH]; cbn [nonempty_comps forallb filter]; [reflexivity|]. intros H.
  apply andb_true_iff in H as [Hx Hl]. rewrite Hx. f_equal. apply IH. exact Hl.
Qed.

Lemma plain_segs_nonempty l : forallb plain_seg l = true -> nonempty_comps l = true.
Proof.
  unfold nonempty_comps. induction l as [|x l IH]; cbn [forallb]; [reflexivity|]. intros H.
  apply andb_true_iff in H as [Hx Hl]. apply plain_seg_facts in Hx as (He & _). rewrite He, IH by exact Hl.
  reflexivity.
Qed.

Lemma split_slash_nonnil s cur : split_slash cur s <> [].
Proof. revert cur. induction s as [|c r IH]; intros cur; cbn [split_slash]; [discriminate|].
  destruct (c =? 47); [discriminate | apply IH]. Qed.

(* the characters of a plain name *)
Lemma plain_chars file : forallb plain_seg (split_slash [] file) = true ->
  forallb (fun c => plain_char c || (c =? 47)) file = true.
Proof.
  intros H. assert (H2 : forallb (forallb plain_char) (split_slash [] file) = true).
  { revert H. generalize (split_slash [] file). induction l as [|x l IH]; cbn [forallb]; [reflexivity|].
    intros H. apply andb_true_iff in H as [Hx Hl]. apply plain_seg_facts in Hx as (_ & Hx & _).
    rewrite Hx, IH by exact Hl. reflexivity. }
  rewrite split_slash_chars in H2. cbn [forallb] in H2. exact H2.
Qed.

Lemma forallb_impl {A} (P Q : A -> bool) l : (forall x, P x = true -> Q x = true) ->
  forallb P l = true -> forallb Q l = true.
Proof. intros HPQ. induction l as [|x l IH]; cbn [forallb]; [reflexivity|]. intros H.
  apply andb_true_iff in H as [Hx Hl]. rewrite (HPQ x Hx), IH by exact Hl. reflexivity. Qed.

Lemma std_components_plain file : forallb plain_seg (split_slash [] file) = true ->
  std_components file = split_slash [] file.
Proof.
  unfold std_components. generalize (split_slash [] file).
  induction l as [|x l IH]; cbn [forallb filter]; [reflexivity|]. intros H.
  apply andb_true_iff in H as [Hx Hl]. apply plain_seg_facts in Hx as (He & _ & Hsd & _).
  assert (is_dot x = false) as Hd.
  { unfold is_dot. destruct x as [|a [|b t]]; try reflexivity. cbn [bytes_eqb].
    destruct (a =? 46) eqn:E; [|reflexivity]. apply N.eqb_eq in E. subst a. discriminate Hsd.
    cbn [bytes_eqb]. rewrite andb_false_r. reflexivity. }
  rewrite He, Hd. cbn [orb negb]. f_equal. apply IH. exact Hl.
Qed.

(* a plain name is relative and not empty *)
Lemma plain_first file : forallb plain_seg (split_slash [] file) = true ->
  exists c r, file = c :: r /\ is_seg_sep c = false /\ (c =? 47) = false.
Proof.
  intros H. destruct file as [|c r].
  - cbn in H. discriminate H.
  - exists c, r. split; [reflexivity|].
    assert (Hc := plain_chars _ H). cbn [forallb] in Hc. apply andb_true_iff in Hc as [Hc _].
    destruct (c =? 47) eqn:E47.
    + cbn [split_slash] in H. rewrite E47 in H. cbn [forallb rev] in H.
      apply andb_true_iff in H as [H _]. discriminate H.
    + rewrite orb_false_r in Hc. apply plain_char_facts in Hc as (_ & H92 & _).
      unfold is_seg_sep. rewrite E47, H92. split; reflexivity.
Qed.

Theorem url_join_plain base file :
  base <> [] -> nonempty_comps base = true -> url_plain file = true ->
  url_join base file = UPath (put_comps base file) false.
Proof.
  intros Hbne Hbase Hp. unfold url_plain in Hp. apply andb_true_iff in Hp as [Hsch Hsegs].
  apply negb_true_iff in Hsch.
  assert (Hch := plain_chars _ Hsegs).
  assert (Hin : url_input file = file).
  { apply url_input_id. eapply forallb_impl; [|exact Hch]. cbn beta. intros x Hx.
    apply orb_true_iff in Hx as [Hx|Hx]; [apply plain_char_facts in Hx; tauto|].
    apply N.eqb_eq in Hx. subst x. reflexivity. }
  assert (Hus : url_segs [] file = split_slash [] file).
  { apply url_segs_split. eapply forallb_impl; [|exact Hch]. cbn beta. intros x Hx.
    apply orb_true_iff in Hx as [Hx|Hx].
    - apply plain_char_facts in Hx as (_ & H92 & Hst & _). rewrite H92, Hst. reflexivity.
    - apply N.eqb_eq in Hx. subst x. reflexivity. }
  destruct (plain_first _ Hsegs) as (c & r & Hf & Hsep & H47). subst file.
  unfold url_join. rewrite Hin, Hsch. cbv beta iota. rewrite Hsep, Hus.
  rewrite (existsb_false_forallb is_drive plain_seg)
    by (try exact Hsegs; intros x Hx; apply plain_seg_facts in Hx; tauto).
  rewrite quirk_plain
    by (try exact Hsegs; intros Hr; apply (f_equal (@rev _)) in Hr; rewrite rev_involutive in Hr; exact (Hbne Hr)).
  cbn [orb].
  rewrite walk_plain by (try exact Hsegs; apply split_slash_nonnil). rewrite rev_involutive.
  unfold put_comps. cbv beta iota. rewrite H47. rewrite std_components_plain by exact Hsegs.
  unfold path_of. rewrite filter_nonempty_id.
  2:{ unfold nonempty_comps. rewrite forallb_app. fold (nonempty_comps base). rewrite Hbase.
      apply plain_segs_nonempty. exact Hsegs. }
  f_equal.
  destruct (exists_last (split_slash_nonnil (c :: r) [])) as (init & l & Hl).
  rewrite Hl in *. rewrite app_assoc, rev_app_distr. cbn [rev app].
  rewrite forallb_app in Hsegs. apply andb_true_iff in Hsegs as [_ Hlast]. cbn [forallb] in Hlast.
  rewrite andb_true_r in Hlast. apply plain_seg_facts in Hlast as (He & _). exact He.
Qed.

(* what was put under a plain name into the directory the base URL names is what a fetch finds *)
Theorem put_then_fetch files base file v :
  base <> [] -> nonempty_comps base = true -> url_plain file = true ->
  fs_fetch (fs_put (put_comps base file) v files) base file = FsFound v.
Proof.
  intros Hne Hb Hp. unfold fs_fetch. rewrite (url_join_plain base file Hne Hb Hp), fs_get_put_same. reflexivity.
Qed.

(* and putting other files elsewhere does not disturb it *)
Theorem put_other_keeps files base file p w :
  base <> [] -> nonempty_comps base = true -> url_plain file = true -> paths_eqb (put_comps base file) p = false ->
  fs_fetch (fs_put p w files) base file = fs_fetch files base file.
Proof.
  intros Hbne Hb Hp Hne. unfold fs_fetch. rewrite (url_join_plain base file Hbne Hb Hp).
  rewrite ToughV.Proofs.TNameP.fs_get_put_other by exact Hne. reflexivity.
Qed.

(* where save_target puts a file is where Path::join puts it *)
Lemma save_path_put outdir file dest : save_path outdir file = inr dest -> dest = put_comps outdir file.
Proof.
  unfold save_path, put_comps. destruct (match file with [] => false | c :: _ => c =? 47 end).
  - destruct (rev (std_components file)) as [|x rp]; [discriminate|].
    destruct (list_prefix outdir (rev rp)); [|discriminate]. intros H. injection H as <-. reflexivity.
  - destruct (rev (outdir ++ std_components file)) as [|x rp]; [discriminate|].
    destruct (list_prefix outdir (rev rp)); [|discriminate]. intros H. injection H as <-. reflexivity.
Qed.

(* a cached (or saved) target under a plain file name is found again by a client whose targets base URL names
   the directory it was stored in, and what it finds is the signed content the source served *)
Theorem cached_target_served (H : bytes -> N) fx cfg now rp tsrv n prefix outdir f w f' w' ti :
  save_target H fx cfg now rp tsrv n prefix outdir f w = (Ok tt, f', w') ->
  find_target n (rp_targets rp) = Some ti -> ti_len ti < u64max' ->
  outdir <> [] -> forallb (fun c => negb (is_empty c)) outdir = true ->
  url_plain (if prefix then ti_hex ti ++ [46] ++ tn_resolved n else tn_resolved n) = true ->
  exists d,
    fs_fetch (fs_files f') outdir (if prefix then ti_hex ti ++ [46] ++ tn_resolved n else tn_resolved n) = FsFound d
    /\ H d = ti_digest ti /\ N.of_nat (length d) <= ti_len ti
    /\ (exists s, tlookup (if r_cs (rp_root rp) then Some (ti_digest ti) else None, tn_resolved n) tsrv = TStream s
                  /\ d = chunk_bytes s).
Proof.
  intros Hs Hf Hl Hone Ho Hp.
  destruct (cached_target_reads_back H fx cfg now rp tsrv n prefix outdir f w f' w' ti Hs Hf Hl)
    as (dest & d & Hsp & Hget & Hd & Hlen & Hsrv & _).
  exists d. repeat split; try assumption.
  unfold fs_fetch. rewrite (url_join_plain outdir _ Hone Ho Hp).
  rewrite <- (save_path_put _ _ _ Hsp), Hget. reflexivity.
Qed.


(* ---------------------------------------------------------------------------------------- *)
(* the known class is not empty, and what happens there *)
Example space_is_encoded :
  url_join [[100]] [97; 32; 98] = UPath [[100]; [97; 37; 50; 48; 98]] false
  /\ put_comps [[100]] [97; 32; 98] = [[100]; [97; 32; 98]].
Proof. vm_compute. split; reflexivity. Qed.

Example known_class_not_found :
  fs_fetch (fs_put (put_comps [[100]] [97; 32; 98]) [1; 2; 3] []) [[100]] [97; 32; 98] = FsNotFound.
Proof. vm_compute. reflexivity. Qed.

(* "%2e%2e/x": a normal component for clean_name, a double-dot segment for the URL parser *)
Example encoded_dots_leave_the_directory :
  url_join [[100]; [101]] [37; 50; 101; 37; 50; 101; 47; 120] = UPath [[100]; [120]] false.
Proof. vm_compute. reflexivity. Qed.

Example question_mark_cuts : url_join [[100]] [97; 63; 98] = UPath [[100]; [97]] false.
Proof. vm_compute. reflexivity. Qed.

Example colon_makes_a_url : url_join [[100]] [97; 58; 98] = UScheme.
Proof. vm_compute. reflexivity. Qed.

Example plain_example : url_plain [100; 105; 114; 47; 102; 46; 116; 120; 116] = true.
Proof. vm_compute. reflexivity. Qed.


Lemma std_components_plain_one file : url_plain file = true -> split_slash [] file = [file] ->
  std_components file = [file].
Proof.
  intros Hp Hs. unfold url_plain in Hp. apply andb_true_iff in Hp as [_ Hp].
  rewrite (std_components_plain file Hp). exact Hs.
Qed.

(* ---------------------------------------------------------------------------------------- *)
(* Metadata files of delegated roles (C16): the file name built from a role name is a plain name of one
   component, so the file a local client opens is that entry, directly inside the metadata directory. *)
From ToughV Require Import Proofs.PctP.

Lemma fname_char_plain_char c : fname_char c = true -> plain_char c = true.
Proof.
  unfold fname_char, unreserved, is_alnum, plain_char, in_path_set. intros H.
  apply andb_true_iff. split; apply negb_true_iff.
  - rewrite !orb_false_iff. repeat split; lia.
  - lia.
Qed.

Lemma no_slash_single s : Forall (fun c => c <> 47) s -> forall cur, split_slash cur s = [rev cur ++ s].
Proof.
  induction 1 as [|c r Hc Hr IH]; intros cur; cbn [split_slash].
  - rewrite app_nil_r. reflexivity.
  - destruct (c =? 47) eqn:E; [apply N.eqb_eq in E; contradiction|].
    rewrite IH. cbn [rev]. rewrite <- app_assoc. reflexivity.
Qed.

Lemma scheme_rest_colon s : scheme_rest s = true -> In 58 s.
Proof.
  induction s as [|c r IH]; cbn [scheme_rest]; [discriminate|].
  destruct (c =? 58) eqn:E; [apply N.eqb_eq in E; subst; left; reflexivity|].
  destruct (is_alnum c || (c =? 43) || (c =? 45) || (c =? 46)); [|discriminate].
  intros H. right. apply IH. exact H.
Qed.

Lemma dot_tok_inv s r : dot_tok s = Some r ->
  s = 46 :: r \/ s = 37 :: 50 :: 101 :: r \/ s = 37 :: 50 :: 69 :: r.
Proof.
  unfold dot_tok. destruct s as [|a [|b [|c t]]];
    repeat match goal with |- context [match ?x with _ => _ end] => destruct x end;
    try discriminate; intros H; injection H as <-; auto.
Qed.

Lemma ends_json_last p : last (p ++ dot_json) 0 = 110.
Proof.
  unfold dot_json. change [46; 106; 115; 111; 110] with ([46; 106; 115; 111] ++ [110]).
  rewrite app_assoc. apply last_last.
Qed.

Lemma dots_last s : single_dot s = true \/ double_dot s = true ->
  last s 0 = 46 \/ last s 0 = 101 \/ last s 0 = 69.
Proof.
  unfold single_dot, double_dot. intros [H|H].
  - destruct (dot_tok s) as [r|] eqn:E; [|discriminate]. destruct r; [|discriminate].
    apply dot_tok_inv in E. destruct E as [-> | [-> | ->]]; cbn; auto.
  - destruct (dot_tok s) as [r|] eqn:E; [|discriminate].
    destruct (dot_tok r) as [r2|] eqn:E2; [|discriminate]. destruct r2; [|discriminate].
    apply dot_tok_inv in E, E2.
    destruct E2 as [-> | [-> | ->]]; destruct E as [-> | [-> | ->]]; cbn; auto.
Qed.

Theorem role_filename_url_plain cs v name : Forall (fun c => c < 256) name ->
  url_plain (role_filename cs v name) = true.
Proof.
  intros Hn. pose proof (role_filename_chars cs v name Hn) as Hch.
  destruct (role_filename_ends cs v name) as [p Hp].
  assert (Hns : Forall (fun c => c <> 47) (role_filename cs v name)).
  { eapply Forall_impl; [|exact Hch]. cbn beta. intros c Hc. apply fname_char_plain in Hc. tauto. }
  unfold url_plain. rewrite (no_slash_single _ Hns []). cbn [rev app forallb]. rewrite andb_true_r.
  apply andb_true_iff. split.
  - apply negb_true_iff. unfold has_scheme. destruct (role_filename cs v name) as [|c r] eqn:E; [reflexivity|].
    destruct (scheme_rest r) eqn:Es; [|apply andb_false_r].
    apply scheme_rest_colon in Es. rewrite Forall_forall in Hch.
    assert (Hc : fname_char 58 = true) by (apply Hch; right; exact Es). discriminate Hc.
  - unfold plain_seg.
    assert (Hlen : (5 <= length (role_filename cs v name))%nat).
    { rewrite Hp, app_length. cbn [length dot_json]. lia. }
    assert (He : is_empty (role_filename cs v name) = false).
    { destruct (role_filename cs v name); [cbn [length] in Hlen; lia | reflexivity]. }
    assert (Hpl : forallb plain_char (role_filename cs v name) = true).
    { apply forallb_forall. rewrite Forall_forall in Hch. intros c Hc. apply fname_char_plain_char, Hch, Hc. }
    assert (Hdr : is_drive (role_filename cs v name) = false).
    { destruct (role_filename cs v name) as [|a [|b [|c t]]]; cbn [length] in Hlen; try lia. reflexivity. }
    (* a dot segment in any spelling ends with '.', 'e' or 'E'; the name ends with 'n' *)
    assert (Hd : single_dot (role_filename cs v name) = false /\ double_dot (role_filename cs v name) = false).
    { rewrite Hp. pose proof (ends_json_last p) as Hl.
      split; [destruct (single_dot (p ++ dot_json)) eqn:E | destruct (double_dot (p ++ dot_json)) eqn:E];
        try reflexivity; exfalso;
        (destruct (dots_last (p ++ dot_json)) as [H|[H|H]]; [auto | rewrite Hl in H; discriminate H ..]). }
    destruct Hd as [Hsd Hdd]. rewrite He, Hpl, Hsd, Hdd, Hdr. reflexivity.
Qed.

(* so a local client (FilesystemTransport) asking for a delegated role's metadata opens the entry of that very
   name directly inside the metadata directory *)
Theorem role_file_opened base cs v name : base <> [] -> nonempty_comps base = true -> Forall (fun c => c < 256) name ->
  url_join base (role_filename cs v name) = UPath (base ++ [role_filename cs v name]) false.
Proof.
  intros Hbne Hb Hn. rewrite (url_join_plain base _ Hbne Hb (role_filename_url_plain cs v name Hn)).
  f_equal. unfold put_comps.
  pose proof (role_filename_chars cs v name Hn) as Hch.
  assert (Hns : Forall (fun c => c <> 47) (role_filename cs v name)).
  { eapply Forall_impl; [|exact Hch]. cbn beta. intros c Hc. apply fname_char_plain in Hc. tauto. }
  assert (Hsp : split_slash [] (role_filename cs v name) = [role_filename cs v name])
    by (rewrite (no_slash_single _ Hns []); reflexivity).
  assert (Hstd : std_components (role_filename cs v name) = [role_filename cs v name]).
  { apply std_components_plain_one. exact (role_filename_url_plain cs v name Hn). exact Hsp. }
  rewrite Hstd.
  destruct (role_filename cs v name) as [|c r] eqn:E; [reflexivity|].
  inversion Hns as [|? ? Hc _]; subst. apply N.eqb_neq in Hc. rewrite Hc. reflexivity.
Qed.

(* ---------------------------------------------------------------------------------------- *)
(* Target names over the unreserved characters and '/': whatever TargetName::new makes of such a (relative) name
   is a plain file name, with and without the digest prefix - so for these names nothing is in the known class. *)
From ToughV Require Import Proofs.TNameP.

Lemma normalize_keeps (P : bytes -> Prop) comps : forall stack,
  Forall P stack -> Forall P comps -> Forall P (normalize stack comps).
Proof.
  induction comps as [|c r IH]; intros stack Hs Hc; cbn [normalize]; [apply Forall_rev, Hs|].
  inversion Hc as [|? ? Hc1 Hc2]; subst.
  destruct (is_empty c || is_dot c); [apply IH; assumption|].
  destruct (is_dotdot c).
  - apply IH; [|assumption]. destruct stack; [constructor|]. inversion Hs; assumption.
  - apply IH; [|assumption]. constructor; assumption.
Qed.

Lemma unreserved_plain_char c : unreserved c = true -> plain_char c = true.
Proof. intros H. apply fname_char_plain_char. unfold fname_char. rewrite H. reflexivity. Qed.

Lemma hexdigit_unreserved c : is_hexdigit c = true -> unreserved c = true.
Proof. unfold is_hexdigit, unreserved, is_alnum. lia. Qed.

(* a component of unreserved characters that is neither "." nor ".." is a plain segment *)
Lemma unreserved_comp_plain c : forallb unreserved c = true -> is_normal c = true -> plain_seg c = true.
Proof.
  intros Hu Hn. unfold is_normal in Hn. apply negb_true_iff in Hn.
  apply orb_false_iff in Hn as [Hn Hdd]. apply orb_false_iff in Hn as [He Hd].
  assert (H37 : ~ In 37 c).
  { intros Hin. rewrite forallb_forall in Hu. specialize (Hu _ Hin). discriminate Hu. }
  unfold plain_seg. rewrite He. cbn [negb andb].
  assert (Hp : forallb plain_char c = true)
    by (eapply forallb_impl; [|exact Hu]; apply unreserved_plain_char).
  rewrite Hp. cbn [andb].
  assert (Hs : single_dot c = false).
  { unfold single_dot. destruct (dot_tok c) as [r|] eqn:E; [|reflexivity]. destruct r; [|reflexivity].
    apply dot_tok_inv in E. destruct E as [-> | [-> | ->]].
    - discriminate Hd.
    - exfalso. apply H37. left. reflexivity.
    - exfalso. apply H37. left. reflexivity. }
  assert (Hdb : double_dot c = false).
  { unfold double_dot. destruct (dot_tok c) as [r|] eqn:E; [|reflexivity].
    destruct (dot_tok r) as [r2|] eqn:E2; [|reflexivity]. destruct r2; [|reflexivity].
    apply dot_tok_inv in E, E2.
    destruct E as [-> | [-> | ->]]; try (exfalso; apply H37; left; reflexivity).
    destruct E2 as [-> | [-> | ->]]; try (exfalso; apply H37; right; left; reflexivity).
    discriminate Hdd. }
  assert (Hdr : is_drive c = false).
  { unfold is_drive. destruct c as [|a [|b [|x t]]]; try reflexivity.
    cbn [forallb] in Hu. rewrite !andb_true_iff in Hu. destruct Hu as (_ & Hb & _).
    assert ((b =? 58) || (b =? 124) = false) as ->
      by (unfold unreserved, is_alnum in Hb; lia).
    apply andb_false_r. }
  rewrite Hs, Hdb, Hdr. reflexivity.
Qed.

Lemma no_colon_no_scheme s : ~ In 58 s -> has_scheme s = false.
Proof.
  intros H. unfold has_scheme. destruct s as [|c r]; [reflexivity|].
  destruct (scheme_rest r) eqn:E; [|apply andb_false_r].
  exfalso. apply H. right. apply scheme_rest_colon. exact E.
Qed.

Lemma chars_of_segs (P : byte -> bool) s :
  forallb (forallb P) (split_slash [] s) = true -> forallb (fun c => P c || (c =? 47)) s = true.
Proof. intros H. rewrite split_slash_chars in H. cbn [forallb] in H. exact H. Qed.

Theorem safe_name_plain name r :
  forallb (fun c => unreserved c || (c =? 47)) name = true ->
  match name with c :: _ => c =? 47 | [] => false end = false ->
  clean_name name = inr r ->
  url_plain r = true
  /\ forall h, h <> [] -> forallb is_hexdigit h = true -> url_plain (h ++ 46 :: r) = true.
Proof.
  intros Hch Hrel H. unfold clean_name in H.
  destruct (is_dotdot name); [discriminate|]. destruct (is_empty name); [discriminate|].
  rewrite Hrel in H. cbn [app] in H.
  set (stack := normalize [] (split_slash [] name)) in *.
  destruct (is_empty (join_slash stack)) eqn:E1; [discriminate|].
  destruct (bytes_eqb (join_slash stack) [47]); [discriminate|].
  injection H as <-.
  assert (Hne : stack <> []) by (intros Hn; rewrite Hn in E1; discriminate E1).
  assert (Hnorm : Forall normal_comp stack).
  { apply normalize_normal; [constructor|]. apply split_slash_no_slash. intros []. }
  assert (Hun : Forall (fun c => forallb unreserved c = true) stack).
  { apply normalize_keeps; [constructor|]. apply Forall_forall. intros c Hc.
    assert (Hall : forallb (forallb unreserved) (split_slash [] name) = true).
    { rewrite split_slash_chars. cbn [forallb]. exact Hch. }
    rewrite forallb_forall in Hall. apply Hall. exact Hc. }
  assert (Hns : Forall no_slash stack) by (eapply Forall_impl; [|exact Hnorm]; intros c [_ X]; exact X).
  assert (Hplain : forallb plain_seg stack = true).
  { apply forallb_forall. intros c Hc. rewrite Forall_forall in Hun, Hnorm.
    apply unreserved_comp_plain; [apply Hun, Hc | apply (Hnorm c Hc)]. }
  assert (Hsplit : split_slash [] (join_slash stack) = stack).
  { rewrite (split_join stack Hne Hns [] ltac:(intros [])). cbn [rev app].
    destruct stack; [contradiction | reflexivity]. }
  (* the characters of the resolved name *)
  assert (Hrch : forallb (fun c => unreserved c || (c =? 47)) (join_slash stack) = true).
  { apply chars_of_segs. rewrite Hsplit. apply forallb_forall. rewrite Forall_forall in Hun. exact Hun. }
  assert (Hnocolon : forall pre, forallb unreserved pre = true -> ~ In 58 (pre ++ join_slash stack)).
  { intros pre Hpre Hin. apply in_app_or in Hin as [Hin|Hin].
    - rewrite forallb_forall in Hpre. specialize (Hpre _ Hin). discriminate Hpre.
    - rewrite forallb_forall in Hrch. specialize (Hrch _ Hin). discriminate Hrch. }
  split.
  - unfold url_plain. rewrite Hsplit, Hplain.
    pose proof (Hnocolon [] eq_refl) as Hc0. cbn [app] in Hc0.
    rewrite (no_colon_no_scheme _ Hc0). reflexivity.
  - intros h Hh Hhex. unfold url_plain.
    assert (Hhu : forallb unreserved (h ++ [46]) = true).
    { rewrite forallb_app. cbn [forallb]. rewrite andb_true_r.
      eapply forallb_impl; [|exact Hhex]. apply hexdigit_unreserved. }
    assert (Hcolon : ~ In 58 (h ++ 46 :: join_slash stack)).
    { change (h ++ 46 :: join_slash stack) with (h ++ [46] ++ join_slash stack).
      rewrite app_assoc. apply Hnocolon. exact Hhu. }
    rewrite (no_colon_no_scheme _ Hcolon). cbn [negb andb].
    assert (Hhns : no_slash (h ++ [46])).
    { intros Hin. rewrite forallb_forall in Hhu. specialize (Hhu _ Hin). discriminate Hhu. }
    change (h ++ 46 :: join_slash stack) with (h ++ [46] ++ join_slash stack). rewrite app_assoc.
    rewrite (split_slash_app _ Hhns), app_nil_r.
    rewrite (split_join stack Hne Hns (rev (h ++ [46]))
               ltac:(intros Hin; apply in_rev in Hin; exact (Hhns Hin))).
    rewrite rev_involutive. destruct stack as [|c0 rest]; [contradiction|]. cbn [hd tl forallb].
    cbn [forallb] in Hplain. apply andb_true_iff in Hplain as [Hc0 Hrest]. rewrite Hrest, andb_true_r.
    inversion Hun as [|? ? Hu0 _]; subst. inversion Hnorm as [|? ? [Hn0 _] _]; subst.
    (* the first component, prefixed: unreserved characters, at least three of them, beginning with a hex digit *)
    assert (Hall : forallb unreserved ((h ++ [46]) ++ c0) = true) by (rewrite forallb_app, Hhu, Hu0; reflexivity).
    apply unreserved_comp_plain; [exact Hall|].
    destruct h as [|a t]; [contradiction|].
    cbn [forallb] in Hhex. apply andb_true_iff in Hhex as [Ha _].
    assert (Ha46 : (a =? 46) = false) by (unfold is_hexdigit in Ha; lia).
    unfold is_normal. apply negb_true_iff. rewrite !orb_false_iff. split; [split|].
    + reflexivity.
    + unfold is_dot. cbn [app bytes_eqb]. rewrite Ha46. reflexivity.
    + unfold is_dotdot. cbn [app bytes_eqb]. rewrite Ha46. reflexivity.
Qed.

(* ---------------------------------------------------------------------------------------- *)
(* Two different plain names never share a file: neither where they are put nor where they are looked for. *)
Lemma join_split f : forall cur, join_slash (split_slash cur f) = rev cur ++ f.
Proof.
  induction f as [|c r IH]; intros cur; cbn [split_slash].
  - cbn [join_slash]. rewrite app_nil_r. reflexivity.
  - destruct (c =? 47) eqn:E.
    + apply N.eqb_eq in E. subst c.
      destruct (split_slash [] r) as [|x l] eqn:Es; [exfalso; exact (split_slash_nonnil r [] Es)|].
      change (join_slash (rev cur :: x :: l)) with (rev cur ++ 47 :: join_slash (x :: l)).
      rewrite <- Es, IH. reflexivity.
    + rewrite IH. cbn [rev]. rewrite <- app_assoc. reflexivity.
Qed.

Lemma split_slash_inj f1 f2 : split_slash [] f1 = split_slash [] f2 -> f1 = f2.
Proof.
  intros H. pose proof (join_split f1 []) as H1. pose proof (join_split f2 []) as H2.
  rewrite H in H1. rewrite H1 in H2. exact H2.
Qed.

Theorem plain_names_apart base f1 f2 :
  base <> [] -> nonempty_comps base = true -> url_plain f1 = true -> url_plain f2 = true ->
  (put_comps base f1 = put_comps base f2 \/ url_join base f1 = url_join base f2) -> f1 = f2.
Proof.
  intros Hne Hb H1 H2 H.
  assert (Hput : put_comps base f1 = put_comps base f2).
  { destruct H as [H|H]; [exact H|].
    rewrite (url_join_plain base f1 Hne Hb H1), (url_join_plain base f2 Hne Hb H2) in H.
    injection H as H. exact H. }
  assert (Hrel : forall f, url_plain f = true -> put_comps base f = base ++ split_slash [] f).
  { intros f Hf. unfold url_plain in Hf. apply andb_true_iff in Hf as [_ Hs].
    destruct (plain_first _ Hs) as (c & r & -> & _ & H47).
    unfold put_comps. rewrite H47. rewrite (std_components_plain _ Hs). reflexivity. }
  rewrite (Hrel f1 H1), (Hrel f2 H2) in Hput. apply app_inv_head in Hput.
  apply split_slash_inj. exact Hput.
Qed.

(* so the files a local client opens for two different role names are different files *)
Theorem role_files_apart base cs v1 v2 n1 n2 :
  base <> [] -> nonempty_comps base = true ->
  Forall (fun c => c < 256) n1 -> Forall (fun c => c < 256) n2 -> n1 <> n2 ->
  url_join base (role_filename cs v1 n1) <> url_join base (role_filename cs v2 n2).
Proof.
  intros Hne Hb H1 H2 Hn Heq. apply (role_filename_distinct cs v1 v2 n1 n2 H1 H2 Hn).
  apply (plain_names_apart base _ _ Hne Hb (role_filename_url_plain cs v1 n1 H1) (role_filename_url_plain cs v2 n2 H2)).
  right. exact Heq.
Qed.
