(* What a successful update cycle guarantees about every document it trusts (C01 sites, C02 chain,
   C04 freeze, C05 pins, C09 byte bounds). Model with all repairs ([fixed]). *)
From ToughV Require Import Model.Base Model.Pct Model.Sig Model.Glob Model.Deleg Model.Client.
From ToughV Require Import Proofs.BaseP Proofs.SigP Proofs.ClientP.
From Coq Require Import ZifyBool ZifyN ZifyNat.

Definition fixed_atomic' : fx_atomic_store fixed = true := eq_refl.

(* what a successful fetch means: the server has that file under that name, the stream did not fail,
   its length is within the limit, and its digest is the expected one when one was expected *)
Lemma fetch_ok srv name limit hash file :
  fetch srv name limit hash = FOk file ->
  lookup name srv = Some (Served file)
  /\ (exists n, f_len file = Some n /\ n <= limit)
  /\ (forall h, hash = Some h -> f_digest file = h).
Proof.
  unfold fetch. intro H.
  destruct (lookup name srv) as [[| |f]|] eqn:L; try discriminate.
  destruct (f_fail f =? 1) eqn:F1; [discriminate|]. destruct (f_fail f =? 2) eqn:F2; [discriminate|].
  destruct (f_len f) as [n|] eqn:Ln; [|discriminate].
  destruct (limit <? n) eqn:Lt; [discriminate|].
  assert (f = file /\ (forall h, hash = Some h -> f_digest f = h)) as [-> Hh].
  { destruct hash as [h|]; [|inv H; split; [reflexivity|discriminate]].
    destruct (h =? f_digest f) eqn:E; inv H. split; [reflexivity|]. intros h' Hh'. inv Hh'.
    apply N.eqb_eq in E. auto. }
  split; [reflexivity|]. split; [|exact Hh]. exists n. split; [exact Ln|lia].
Qed.

(* a size refusal only happens to a stream that really exceeds the limit *)
Lemma fetch_maxsize srv name limit hash :
  fetch srv name limit hash = FErr 2 ->
  exists f, lookup name srv = Some (Served f)
            /\ (f_len f = None \/ exists n, f_len f = Some n /\ limit < n).
Proof.
  unfold fetch. intro H.
  destruct (lookup name srv) as [[| |f]|] eqn:L; try discriminate.
  destruct (f_fail f =? 1); [discriminate|]. destruct (f_fail f =? 2); [discriminate|].
  exists f. split; [reflexivity|].
  destruct (f_len f) as [n|]; [|left; reflexivity].
  destruct (limit <? n) eqn:Lt; [right; exists n; split; [reflexivity|lia]|].
  destruct hash as [h|]; [|discriminate]. destruct (h =? f_digest f); discriminate.
Qed.

(* root_verify is the specification of C01 applied to the role's entry *)
Lemma root_verify_spec r role sigs :
  root_verify r role sigs = true <->
  exists rk, find_role role (r_roles r) = Some rk
             /\ spec_accept (r_keys r) (rk_keyids rk) (rk_threshold rk) sigs = true.
Proof.
  unfold root_verify. destruct (find_role role (r_roles r)) as [rk|].
  - rewrite verify_distinct_spec. split; [intro H; exists rk; auto|intros (rk' & E & H); inv E; exact H].
  - split; [discriminate|intros (rk & E & _); discriminate].
Qed.

(* ---------------------------------------------------------------------------------------- *)
Inductive cycle_facts (c : cyc) (rp : repo) : Prop :=
| cycle_facts_intro (r0 : root) (l : list root) (t0 : targets) (s2 s3 s4 : store) :
    cy_shipped c = CRoot r0 ->
    root_verify r0 0 (r_sigs r0) = true ->
    path (cy_cfg c) (cy_srv c) r0 l ->
    rp_root rp = last_root r0 l ->
    stopped (cy_cfg c) (cy_srv c) (rp_root rp) ->
    r_version (rp_root rp) < update_limit fixed (r_version r0) (c_max_root_updates (cy_cfg c)) ->
    (c_enforce (cy_cfg c) = true -> (cy_now c <= r_expires (rp_root rp))%Z) ->
    ts_accepted (cy_cfg c) (rp_root rp) (cy_srv c) (cy_now c) s2 (rp_ts rp) ->
    snap_accepted (cy_cfg c) (rp_root rp) (rp_ts rp) (cy_srv c) (cy_now c) s3 (rp_snap rp) ->
    tgt_accepted (cy_cfg c) (rp_root rp) (rp_snap rp) (cy_srv c) (cy_now c) s4 t0 ->
    loaded_from t0 (rp_targets rp) ->
    validate (rp_targets rp) = true ->
    cycle_facts c rp.

Lemma cycle_ok_facts c s rp w' : run_cycle fixed c s = (Ok rp, w') -> cycle_facts c rp.
Proof.
  intro H. unfold run_cycle, cycle in H. set (w0 := world0 s (cy_fault c)) in *.
  unfold load_root in H.
  destruct (cy_shipped c) as [|r0| | |] eqn:Hship; try discriminate.
  destruct (root_verify r0 0 (r_sigs r0)) eqn:V0; cbn [negb] in H; [|discriminate].
  destruct (root_walk fixed (c_fuel (cy_cfg c)) (cy_cfg c) (cy_srv c) (r_version r0) r0 w0) as [[r|cw aw] w1] eqn:Hw;
    [|discriminate].
  apply root_walk_ok in Hw as (l & Hp & Hr & Hs & _ & Hlim).
  destruct (finish_root fixed (cy_cfg c) (cy_now c) (reference_root fixed r0 (w_store w0)) r w1) as [[rr|cr ar] w2] eqn:Hfinish;
    [|discriminate].
  pose proof (finish_root_atomic _ _ _ _ _ _ _ _ fixed_atomic' Hfinish) as (_ & _ & _ & _ & _ & Ok2).
  destruct Ok2 as (-> & _ & _ & Hfresh).
  destruct (load_timestamp fixed (cy_cfg c) r (cy_srv c) (cy_now c) w2) as [[ts|ct at_] w3] eqn:HT; [|discriminate].
  pose proof (load_timestamp_atomic _ _ _ _ _ _ _ _ fixed_atomic' HT) as (_ & _ & _ & _ & (_ & Ats)).
  destruct (load_snapshot fixed (cy_cfg c) r ts (cy_srv c) (cy_now c) w3) as [[sn|cs_ as_] w4] eqn:HS; [|discriminate].
  pose proof (load_snapshot_atomic _ _ _ _ _ _ _ _ _ fixed_atomic' HS) as (_ & _ & _ & _ & (_ & Asn)).
  destruct (load_targets fixed (cy_cfg c) r sn (cy_srv c) (cy_now c) w4) as [[t|cg ag] w5] eqn:HG; [|discriminate].
  pose proof (load_targets_atomic _ _ _ _ _ _ _ _ _ fixed_atomic' HG) as (_ & _ & _ & _ & (t0 & _ & Atg & Lf & Val)).
  inversion H as [[Erp Ew]]. clear H.
  apply (cycle_facts_intro c _ r0 l t0 (w_store w2) (w_store w3) (w_store w4)); cbn [rp_root rp_ts rp_snap rp_targets];
    assumption.
Qed.

(* ---------------------------------------------------------------------------------------- *)
(* C02: versions along an accepted path strictly increase *)
Lemma path_versions cfg srv : forall l cur, path cfg srv cur l -> r_version cur <= r_version (last_root cur l).
Proof.
  induction l as [|x l IH]; intros cur Hp; [cbn; lia|].
  destruct Hp as [(file & _ & _ & _ & _ & Hlt) Hp]. specialize (IH x Hp).
  unfold last_root in *. cbn [last]. destruct l as [|y l]; [cbn in *; lia|].
  rewrite (last_default_irrelevant l y cur x). lia.
Qed.

(* every root on the path, including the last, was reached through doubly-signed hops *)
Lemma path_last_verified cfg srv : forall l cur, path cfg srv cur l -> l <> [] ->
  root_verify (last_root cur l) 0 (r_sigs (last_root cur l)) = true.
Proof.
  induction l as [|x l IH]; intros cur Hp Hne; [contradiction|].
  destruct Hp as [(file & _ & _ & _ & Vself & _) Hp].
  unfold last_root in *. cbn [last]. destruct l as [|y l]; [exact Vself|].
  rewrite (last_default_irrelevant l y cur x). apply IH; [exact Hp|discriminate].
Qed.

(* ---------------------------------------------------------------------------------------- *)
(* C04 *)
Lemma cycle_clock_back c s res w' :
  c_enforce (cy_cfg c) = true -> time_back (cy_now c) s = true ->
  run_cycle fixed c s = (res, w') -> exists code a, res = Err code a.
Proof.
  intros He Hb H. destruct res as [rp|code a]; [|eauto]. exfalso.
  unfold run_cycle, cycle in H. set (w0 := world0 s (cy_fault c)) in *.
  unfold load_root in H.
  destruct (cy_shipped c) as [|r0| | |]; try discriminate.
  destruct (negb (root_verify r0 0 (r_sigs r0))); [discriminate|].
  destruct (root_walk fixed (c_fuel (cy_cfg c)) (cy_cfg c) (cy_srv c) (r_version r0) r0 w0) as [[r|cw aw] w1] eqn:Hw;
    [|discriminate].
  apply root_walk_store in Hw as (Sw & _).
  unfold finish_root, check_expired, sys_time in H. rewrite He, Sw in H. cbn [w0 world0 w_store] in H.
  rewrite Hb in H. discriminate.
Qed.

(* with enforcement off nothing fails for reasons of time *)
Definition time_code (c : N) : bool := (c =? E_Expired) || (c =? E_TimeBack).

Lemma ds_op_no_time fx w full trunc c a w' : ds_op fx w full trunc = (Err c a, w') -> time_code c = false.
Proof. unfold ds_op. intro H. repeat break_hyp H; inv H; reflexivity. Qed.

Lemma check_expired_unsafe fx cfg now e role w : c_enforce cfg = false ->
  check_expired fx cfg now e role w = (Ok tt, w).
Proof. intro H. unfold check_expired. rewrite H. reflexivity. Qed.

Section NoTime.
  Variables (fx : fixes) (cfg : config) (srv : server) (snap : snapshot) (cs : bool) (lim : N).

  Lemma fetch_level_no_time dkeys all : forall todo anc acc w c a w',
    fetch_level fx cfg srv snap cs lim dkeys all todo anc acc w = (Err c a, w') -> time_code c = false.
  Proof.
    induction todo as [|[h o] rest IH]; intros anc acc w c a w' H; cbn [fetch_level] in H; [discriminate|].
    destruct (fx_ancestors fx && mem_bytes (dh_name h) anc); [inv H; reflexivity|].
    destruct (lookup (json_of (dh_name h)) (sn_meta snap)) as [m|]; [|inv H; reflexivity].
    match type of H with context [fetch ?a ?b ?c ?d] => destruct (fetch a b c d) as [file|sub] end.
    2:{ inv H. reflexivity. }
    destruct (f_body file) as [| | | |t]; try (inv H; reflexivity).
    destruct (negb (deleg_verify fx dkeys all (dh_name h) (tg_sigs t))); [inv H; reflexivity|].
    destruct (negb (tg_version t =? m_version m)); [inv H; reflexivity|].
    match type of H with context [ds_op ?a ?b ?c ?d] => destruct (ds_op a b c d) as [[u|c2 a2] w2] eqn:E end.
    - eapply IH. exact H.
    - inv H. eapply ds_op_no_time. exact E.
  Qed.

  Definition rec_no_time (rec : list N -> list (dhdr * option targets) -> list bytes -> world
                               -> res (list (dhdr * option targets)) * world) : Prop :=
    forall dk rs anc w c a w', rec dk rs anc w = (Err c a, w') -> time_code c = false.

  Lemma second_loop_no_time rec : rec_no_time rec -> forall todo anc remaining w c a w',
    second_loop rec anc todo remaining w = (Err c a, w') -> time_code c = false.
  Proof.
    intros Hrec. induction todo as [|[h o] rest IH]; intros anc remaining w c a w' H; cbn [second_loop] in H;
      [discriminate|].
    destruct (lookup (dh_name h) remaining) as [t|]; [|inv H; reflexivity].
    destruct (tg_has_deleg t).
    - destruct (rec (tg_dkeys t) (tg_roles t) (anc ++ [dh_name h]) w) as [[rs|c1 a1] w1] eqn:E.
      + destruct (second_loop rec anc rest (assoc_remove (dh_name h) remaining) w1) as [[rs2|c2 a2] w2] eqn:E2;
          [discriminate|]. inv H. eapply IH. exact E2.
      + inv H. eapply Hrec. exact E.
    - destruct (second_loop rec anc rest (assoc_remove (dh_name h) remaining) w) as [[rs2|c2 a2] w2] eqn:E2;
        [discriminate|]. inv H. eapply IH. exact E2.
  Qed.

  Lemma load_delegs_no_time fuel : rec_no_time (load_delegs fx cfg srv snap cs lim fuel).
  Proof.
    induction fuel as [|f IH]; intros dk rs anc w c a w' H; cbn [load_delegs] in H; [inv H; reflexivity|].
    destruct (fetch_level fx cfg srv snap cs lim dk rs rs anc [] w) as [[fetched|c1 a1] w1] eqn:E.
    - eapply second_loop_no_time; [exact IH|exact H].
    - inv H. eapply fetch_level_no_time. exact E.
  Qed.
End NoTime.

(* steps 2-4 with enforcement off *)
Lemma cycle_tail fx c r w2 code a w' :
  c_enforce (cy_cfg c) = false ->
  match load_timestamp fx (cy_cfg c) r (cy_srv c) (cy_now c) w2 with
  | (Err c0 a0, w3) => (@Err repo c0 a0, w3)
  | (Ok ts, w3) =>
      match load_snapshot fx (cy_cfg c) r ts (cy_srv c) (cy_now c) w3 with
      | (Err c0 a0, w4) => (Err c0 a0, w4)
      | (Ok sn, w4) =>
          match load_targets fx (cy_cfg c) r sn (cy_srv c) (cy_now c) w4 with
          | (Err c0 a0, w5) => (Err c0 a0, w5)
          | (Ok t, w5) => (Ok {| rp_root := r; rp_ts := ts; rp_snap := sn; rp_targets := t |}, w5)
          end
      end
  end = (Err code a, w') -> time_code code = false.
Proof.
  intros He H.
  destruct (load_timestamp fx (cy_cfg c) r (cy_srv c) (cy_now c) w2) as [[ts|c1 a1] w3] eqn:HT.
  2:{ inv H. unfold load_timestamp, check_expired in HT. rewrite He in HT.
      repeat break_hyp HT; try (inv HT; reflexivity).
      all: try (inv HT; eapply ds_op_no_time; eassumption). }
  destruct (load_snapshot fx (cy_cfg c) r ts (cy_srv c) (cy_now c) w3) as [[sn|c1 a1] w4] eqn:HS.
  2:{ inv H. unfold load_snapshot, check_expired in HS. rewrite He in HS.
      repeat break_hyp HS; try (inv HS; reflexivity).
      all: try (inv HS; eapply ds_op_no_time; eassumption). }
  destruct (load_targets fx (cy_cfg c) r sn (cy_srv c) (cy_now c) w4) as [[t|c1 a1] w5] eqn:HG; [discriminate|].
  inv H. unfold load_targets, check_expired in HG. rewrite He in HG.
  repeat break_hyp HG; try (inv HG; reflexivity).
  all: try (inv HG; eapply ds_op_no_time; eassumption).
  all: try (inv HG; eapply load_delegs_no_time; eassumption).
Qed.

Lemma cycle_unsafe_no_time fx c s code a w' :
  c_enforce (cy_cfg c) = false -> run_cycle fx c s = (Err code a, w') -> time_code code = false.
Proof.
  intros He H. unfold run_cycle, cycle in H. set (w0 := world0 s (cy_fault c)) in *.
  unfold load_root in H.
  destruct (cy_shipped c) as [|r0| | |]; try (inv H; reflexivity).
  destruct (negb (root_verify r0 0 (r_sigs r0))); [inv H; reflexivity|].
  destruct (root_walk fx (c_fuel (cy_cfg c)) (cy_cfg c) (cy_srv c) (r_version r0) r0 w0) as [[r|cw aw] w1] eqn:Hw.
  2:{ inv H. clear - Hw. revert Hw. generalize w0 as w. generalize r0 at 2 as cur.
      induction (c_fuel (cy_cfg c)) as [|f IH]; intros cur w Hw; cbn [root_walk] in Hw; [inv Hw; reflexivity|].
      repeat break_hyp Hw; try (inv Hw; reflexivity). eapply IH. exact Hw. }
  unfold finish_root in H. rewrite (check_expired_unsafe _ _ _ _ _ _ He) in H.
  destruct (rotated (reference_root fx r0 (w_store w0)) r).
  - destruct (rm_ts_snap fx w1) as [[u|c1 a1] w2] eqn:E1.
    + destruct (fx_prev_root fx).
      * destruct (ds_op fx w2 _ _) as [[u2|c2 a2] w3] eqn:E2.
        -- eapply (cycle_tail fx c r w3); eassumption.
        -- inv H. eapply ds_op_no_time. exact E2.
      * eapply (cycle_tail fx c r w2); eassumption.
    + inv H. unfold rm_ts_snap in E1.
      destruct (ds_op fx w1 (upd_ts None) (upd_ts None)) as [[u|c3 a3] w3] eqn:E3.
      * eapply ds_op_no_time. exact E1.
      * destruct (c3 =? E_Killed); [inv E1; eapply ds_op_no_time; exact E3|].
        destruct (ds_op fx w3 (upd_snap None) (upd_snap None)) as [[u|c4 a4] w4] eqn:E4.
        -- inv E1. eapply ds_op_no_time. exact E3.
        -- destruct (c4 =? E_Killed); inv E1; [eapply ds_op_no_time; exact E4|eapply ds_op_no_time; exact E3].
  - destruct (fx_prev_root fx).
    + destruct (ds_op fx w1 _ _) as [[u2|c2 a2] w3] eqn:E2.
      * eapply (cycle_tail fx c r w3); eassumption.
      * inv H. eapply ds_op_no_time. exact E2.
    + eapply (cycle_tail fx c r w1); eassumption.
Qed.
