(* Where the contents of the datastore come from, over arbitrary histories of cycles (interrupted or
   not), and the resulting "never locked out" theorem: after any history, a cycle against a valid
   repository that is at least as new as every document earlier cycles were served succeeds. *)
From ToughV Require Import Model.Base Model.Pct Model.Sig Model.Glob Model.Deleg Model.Client.
From ToughV Require Import Proofs.BaseP Proofs.SigP Proofs.ClientP Proofs.RollbackP Proofs.DelegLoadP Proofs.LivenessP.
From Coq Require Import ZifyBool ZifyN ZifyNat.

(* ---------------------------------------------------------------------------------------- *)
(* the recorded time is only ever replaced by the clock value of the running cycle *)
Definition tstep (now : Z) (s s' : store) : Prop :=
  st_time s' = st_time s \/ st_time s' = Some (SDoc now).

Lemma tstep_refl now s : tstep now s s. Proof. left. reflexivity. Qed.
Lemma tstep_trans now a b c : tstep now a b -> tstep now b c -> tstep now a c.
Proof. unfold tstep. intros [H1|H1] [H2|H2]; rewrite ?H2, ?H1; auto. Qed.

Lemma ds_op_tstep now w full trunc r w' :
  (forall s, tstep now s (full s)) -> ds_op fixed w full trunc = (r, w') -> tstep now (w_store w) (w_store w').
Proof.
  intros Hf H. destruct (ds_op_atomic _ _ _ _ _ _ fixed_atomic H) as [[E|E] _]; rewrite E; [apply tstep_refl|apply Hf].
Qed.

Ltac keeps_time := intro; left; reflexivity.

Lemma sys_time_tstep now w r w' : sys_time fixed now w = (r, w') -> tstep now (w_store w) (w_store w').
Proof.
  unfold sys_time. intro H. destruct (time_back now (w_store w)); [inv H; apply tstep_refl|].
  destruct (ds_op fixed w (upd_time (Some (SDoc now))) (upd_time (Some SCorrupt))) as [r0 w0] eqn:E.
  apply (ds_op_tstep now) in E; [|intro; right; reflexivity]. destruct r0; inv H; exact E.
Qed.

Lemma check_expired_tstep cfg now e role w r w' :
  check_expired fixed cfg now e role w = (r, w') -> tstep now (w_store w) (w_store w').
Proof.
  unfold check_expired. intro H. destruct (c_enforce cfg); [|inv H; apply tstep_refl].
  destruct (sys_time fixed now w) as [r0 w0] eqn:E. apply sys_time_tstep in E.
  destruct r0; [destruct (a <=? e)%Z|]; inv H; exact E.
Qed.

Lemma rm_ts_snap_tstep now w r w' : rm_ts_snap fixed w = (r, w') -> tstep now (w_store w) (w_store w').
Proof.
  unfold rm_ts_snap. intro H.
  destruct (ds_op fixed w (upd_ts None) (upd_ts None)) as [r1 w1] eqn:E1.
  apply (ds_op_tstep now) in E1; [|keeps_time].
  destruct r1 as [u|c a].
  - apply (ds_op_tstep now) in H; [|keeps_time]. eapply tstep_trans; eassumption.
  - destruct (c =? E_Killed); [inv H; exact E1|].
    destruct (ds_op fixed w1 (upd_snap None) (upd_snap None)) as [r2 w2] eqn:E2.
    apply (ds_op_tstep now) in E2; [|keeps_time].
    assert (w' = w2) as ->. { destruct r2 as [|c2 a2]; [inv H; reflexivity|]. destruct (c2 =? E_Killed); inv H; reflexivity. }
    eapply tstep_trans; eassumption.
Qed.

Lemma finish_root_tstep cfg now ref r w res w' :
  finish_root fixed cfg now ref r w = (res, w') -> tstep now (w_store w) (w_store w').
Proof.
  unfold finish_root. intro H.
  destruct (check_expired fixed cfg now (r_expires r) 0 w) as [[u|c a] w2] eqn:E1; apply check_expired_tstep in E1.
  2:{ inv H. exact E1. }
  destruct (rotated ref r).
  - destruct (rm_ts_snap fixed w2) as [[u3|c a] w3] eqn:E3; apply (rm_ts_snap_tstep now) in E3.
    2:{ inv H. eapply tstep_trans; eassumption. }
    cbn [fixed fx_prev_root] in H.
    destruct (ds_op fixed w3 (upd_root (Some (SDoc r))) (upd_root (Some SCorrupt))) as [[u4|c a] w4] eqn:E4;
      apply (ds_op_tstep now) in E4; try keeps_time; inv H;
      (eapply tstep_trans; [exact E1|]; eapply tstep_trans; eassumption).
  - cbn [fixed fx_prev_root] in H.
    destruct (ds_op fixed w2 (upd_root (Some (SDoc r))) (upd_root (Some SCorrupt))) as [[u4|c a] w4] eqn:E4;
      apply (ds_op_tstep now) in E4; try keeps_time; inv H; (eapply tstep_trans; eassumption).
Qed.

Lemma load_root_tstep cfg shipped srv now w res w' :
  load_root fixed cfg shipped srv now w = (res, w') -> tstep now (w_store w) (w_store w').
Proof.
  unfold load_root. intro H. destruct shipped as [|r0| | |]; try (inv H; apply tstep_refl).
  destruct (negb (root_verify r0 0 (r_sigs r0))); [inv H; apply tstep_refl|].
  destruct (root_walk fixed (c_fuel cfg) cfg srv (r_version r0) r0 w) as [[r|c a] w1] eqn:Ew;
    apply root_walk_store in Ew as (S1 & _).
  - apply finish_root_tstep in H. rewrite S1 in H. exact H.
  - inv H. rewrite S1. apply tstep_refl.
Qed.

Lemma load_timestamp_tstep cfg r srv now w res w' :
  load_timestamp fixed cfg r srv now w = (res, w') -> tstep now (w_store w) (w_store w').
Proof.
  unfold load_timestamp. intro H.
  destruct (fetch srv name_timestamp (c_max_timestamp_size cfg) None) as [file|sub]; [|inv H; apply tstep_refl].
  destruct (f_body file) as [| |ts| |]; try (inv H; apply tstep_refl).
  destruct (negb (root_verify r 3 (ts_sigs ts))); [inv H; apply tstep_refl|].
  match type of H with (if ?c then _ else _) = _ => destruct c end; [inv H; apply tstep_refl|].
  destruct (check_expired fixed cfg now (ts_expires ts) 3 (logged w name_timestamp)) as [[u|c a] w2] eqn:E1;
    apply check_expired_tstep in E1; rewrite logged_store in E1.
  2:{ inv H. exact E1. }
  destruct (ds_op fixed w2 (upd_ts (Some (SDoc ts))) (upd_ts (Some SCorrupt))) as [[u3|c a] w3] eqn:E3;
    apply (ds_op_tstep now) in E3; try keeps_time; inv H; (eapply tstep_trans; eassumption).
Qed.

Lemma load_snapshot_tstep cfg r ts srv now w res w' :
  load_snapshot fixed cfg r ts srv now w = (res, w') -> tstep now (w_store w) (w_store w').
Proof.
  unfold load_snapshot. intro H.
  destruct (lookup name_snapshot (ts_meta ts)) as [m|]; [|inv H; apply tstep_refl].
  match type of H with context [fetch ?a ?b ?c ?d] => destruct (fetch a b c d) as [file|sub] end; [|inv H; apply tstep_refl].
  destruct (f_body file) as [| | |sn|]; try (inv H; apply tstep_refl).
  destruct (negb (sn_version sn =? m_version m)); [inv H; apply tstep_refl|].
  destruct (negb (root_verify r 1 (sn_sigs sn))); [inv H; apply tstep_refl|].
  match type of H with (match ?chk with Ok _ => _ | Err c a => _ end) = _ => destruct chk as [u0|c0 a0] end.
  2:{ inv H. apply tstep_refl. }
  match type of H with context [check_expired ?a ?b ?c ?d ?e ?f] =>
    destruct (check_expired a b c d e f) as [[u|ce ae] w2] eqn:E1 end;
    apply check_expired_tstep in E1; rewrite logged_store in E1.
  2:{ inv H. exact E1. }
  destruct (ds_op fixed w2 (upd_snap (Some (SDoc sn))) (upd_snap (Some SCorrupt))) as [[u3|c a] w3] eqn:E3;
    apply (ds_op_tstep now) in E3; try keeps_time; inv H; (eapply tstep_trans; eassumption).
Qed.

Definition same_time (s s' : store) : Prop := st_time s' = st_time s.

Lemma load_delegs_same_time cfg srv snap cs lim fuel dk rs anc w r w' :
  load_delegs fixed cfg srv snap cs lim fuel dk rs anc w = (r, w') -> same_time (w_store w) (w_store w').
Proof.
  apply (load_delegs_frame fixed cfg srv snap cs lim same_time); unfold same_time; intros; try reflexivity. congruence.
Qed.

Lemma load_targets_tstep cfg r sn srv now w res w' :
  load_targets fixed cfg r sn srv now w = (res, w') -> tstep now (w_store w) (w_store w').
Proof.
  unfold load_targets. intro H.
  destruct (lookup name_targets (sn_meta sn)) as [m|]; [|inv H; apply tstep_refl].
  match type of H with context [fetch ?a ?b ?c ?d] => destruct (fetch a b c d) as [file|sub] end; [|inv H; apply tstep_refl].
  destruct (f_body file) as [| | | |t0]; try (inv H; apply tstep_refl).
  destruct (negb (tg_version t0 =? m_version m)); [inv H; apply tstep_refl|].
  destruct (negb (root_verify r 2 (tg_sigs t0))); [inv H; apply tstep_refl|].
  match type of H with (if ?c then _ else _) = _ => destruct c end; [inv H; apply tstep_refl|].
  match type of H with context [check_expired ?a ?b ?c ?d ?e ?f] =>
    destruct (check_expired a b c d e f) as [[u|ce ae] w2] eqn:E1 end;
    apply check_expired_tstep in E1; rewrite logged_store in E1.
  2:{ inv H. exact E1. }
  destruct (ds_op fixed w2 (upd_tgt (Some (SDoc t0))) (upd_tgt (Some SCorrupt))) as [[u3|c a] w3] eqn:E3;
    apply (ds_op_tstep now) in E3; try keeps_time.
  2:{ inv H. eapply tstep_trans; eassumption. }
  assert (T13 : tstep now (w_store w) (w_store w3)) by (eapply tstep_trans; eassumption).
  destruct (tg_has_deleg t0).
  - match type of H with context [load_delegs ?a ?b ?c ?d ?e ?f ?g ?h ?i ?j ?k] =>
      destruct (load_delegs a b c d e f g h i j k) as [[rs|c4 a4] w4] eqn:E4 end;
      apply load_delegs_same_time in E4; unfold same_time in E4.
    + assert (w' = w4) as -> by (destruct (validate (tg_set_roles t0 rs)); inv H; reflexivity).
      eapply tstep_trans; [exact T13|]. left. exact E4.
    + inv H. eapply tstep_trans; [exact T13|]. left. exact E4.
  - assert (w' = w3) as -> by (destruct (validate t0); inv H; reflexivity). exact T13.
Qed.

Lemma cycle_tstep c s res w' : run_cycle fixed c s = (res, w') -> tstep (cy_now c) s (w_store w').
Proof.
  unfold run_cycle, cycle. intro H.
  destruct (load_root fixed (cy_cfg c) (cy_shipped c) (cy_srv c) (cy_now c) (world0 s (cy_fault c))) as [[r|c0 a0] w1] eqn:E1;
    apply load_root_tstep in E1; cbn [world0 w_store] in E1.
  2:{ inv H. exact E1. }
  destruct (load_timestamp fixed (cy_cfg c) r (cy_srv c) (cy_now c) w1) as [[ts|c0 a0] w2] eqn:E2;
    apply load_timestamp_tstep in E2.
  2:{ inv H. eapply tstep_trans; eassumption. }
  destruct (load_snapshot fixed (cy_cfg c) r ts (cy_srv c) (cy_now c) w2) as [[sn|c0 a0] w3] eqn:E3;
    apply load_snapshot_tstep in E3.
  2:{ inv H. eapply tstep_trans; [exact E1|]. eapply tstep_trans; eassumption. }
  destruct (load_targets fixed (cy_cfg c) r sn (cy_srv c) (cy_now c) w3) as [[t|c0 a0] w4] eqn:E4;
    apply load_targets_tstep in E4; inv H;
    (eapply tstep_trans; [exact E1|]; eapply tstep_trans; [exact E2|]; eapply tstep_trans; eassumption).
Qed.

(* ---------------------------------------------------------------------------------------- *)
(* every document in the datastore was there before the cycle or was served during it *)
Definition served_ts (c : cyc) (x : timestamp) : Prop :=
  exists file, fetch (cy_srv c) name_timestamp (c_max_timestamp_size (cy_cfg c)) None = FOk file /\ f_body file = CTs x.
Definition served_snap (c : cyc) (x : snapshot) : Prop :=
  exists name limit hash file, fetch (cy_srv c) name limit hash = FOk file /\ f_body file = CSnap x.
Definition served_tgt (c : cyc) (x : targets) : Prop :=
  exists name limit hash file, fetch (cy_srv c) name limit hash = FOk file /\ f_body file = CTargets x.

Definition from_cycle (c : cyc) (s s' : store) : Prop :=
  (st_ts s' = st_ts s \/ st_ts s' = None \/ exists x, st_ts s' = Some (SDoc x) /\ served_ts c x)
  /\ (st_snap s' = st_snap s \/ st_snap s' = None \/ exists x, st_snap s' = Some (SDoc x) /\ served_snap c x)
  /\ (st_tgt s' = st_tgt s \/ exists x, st_tgt s' = Some (SDoc x) /\ served_tgt c x).

Lemma from_cycle_refl c s : from_cycle c s s.
Proof. repeat split; left; reflexivity. Qed.

Lemma from_cycle_trans c s1 s2 s3 : from_cycle c s1 s2 -> from_cycle c s2 s3 -> from_cycle c s1 s3.
Proof.
  intros (T1 & S1 & G1) (T2 & S2 & G2). split; [|split].
  - destruct T2 as [E|[E|E]]; [rewrite E; exact T1|right; left; exact E|right; right; exact E].
  - destruct S2 as [E|[E|E]]; [rewrite E; exact S1|right; left; exact E|right; right; exact E].
  - destruct G2 as [E|E]; [rewrite E; exact G1|right; exact E].
Qed.

Lemma cycle_from c s res w' : run_cycle fixed c s = (res, w') -> from_cycle c s (w_store w').
Proof.
  unfold run_cycle, cycle. intro H.
  set (w0 := world0 s (cy_fault c)) in *.
  (* step 0/1 *)
  assert (H1 : forall r w1, load_root fixed (cy_cfg c) (cy_shipped c) (cy_srv c) (cy_now c) w0 = (r, w1) ->
                            from_cycle c s (w_store w1)).
  { intros r w1 E. unfold load_root in E.
    destruct (cy_shipped c) as [|r0| | |]; try (inv E; apply from_cycle_refl).
    destruct (negb (root_verify r0 0 (r_sigs r0))); [inv E; apply from_cycle_refl|].
    destruct (root_walk fixed (c_fuel (cy_cfg c)) (cy_cfg c) (cy_srv c) (r_version r0) r0 w0) as [[rr|cw aw] wa] eqn:Ew;
      apply root_walk_store in Ew as (Sa & _); cbn [w0 world0 w_store] in Sa.
    2:{ injection E as _ <-. rewrite Sa. apply from_cycle_refl. }
    apply finish_root_atomic in E as (G & _ & T & S & _); [|reflexivity]. rewrite Sa in G, T, S.
    split; [|split].
    - destruct T as [T|T]; [left; exact T|right; left; exact T].
    - destruct S as [S|S]; [left; exact S|right; left; exact S].
    - left. exact G. }
  destruct (load_root fixed (cy_cfg c) (cy_shipped c) (cy_srv c) (cy_now c) w0) as [[r|c0 a0] w1] eqn:E1;
    specialize (H1 _ _ eq_refl).
  2:{ inv H. exact H1. }
  (* step 2 *)
  destruct (load_timestamp fixed (cy_cfg c) r (cy_srv c) (cy_now c) w1) as [rT w2] eqn:E2.
  assert (H2 : from_cycle c (w_store w1) (w_store w2)).
  { apply load_timestamp_atomic in E2 as (_ & S & G & T & _); [|reflexivity]. split; [|split].
    - destruct T as [T|(x & T & (Hs & _))]; [left; exact T|]. right; right. exists x. split; [exact T|exact Hs].
    - left. exact S.
    - left. exact G. }
  destruct rT as [ts|c0 a0].
  2:{ inv H. eapply from_cycle_trans; eassumption. }
  (* step 3 *)
  destruct (load_snapshot fixed (cy_cfg c) r ts (cy_srv c) (cy_now c) w2) as [rS w3] eqn:E3.
  assert (H3 : from_cycle c (w_store w2) (w_store w3)).
  { apply load_snapshot_atomic in E3 as (_ & T & G & S & _); [|reflexivity]. split; [|split].
    - left. exact T.
    - destruct S as [S|(x & S & ((m & file & _ & Hf & Hb & _) & _))]; [left; exact S|]. right; right.
      exists x. split; [exact S|]. do 4 eexists. split; [exact Hf|exact Hb].
    - left. exact G. }
  destruct rS as [sn|c0 a0].
  2:{ inv H. eapply from_cycle_trans; [exact H1|]. eapply from_cycle_trans; eassumption. }
  (* step 4 *)
  destruct (load_targets fixed (cy_cfg c) r sn (cy_srv c) (cy_now c) w3) as [rG w4] eqn:E4.
  assert (H4 : from_cycle c (w_store w3) (w_store w4)).
  { apply load_targets_atomic in E4 as (_ & T & S & G & _); [|reflexivity]. split; [|split].
    - left. exact T.
    - left. exact S.
    - destruct G as [G|(x & G & ((m & file & _ & Hf & Hb & _) & _))]; [left; exact G|]. right.
      exists x. split; [exact G|]. do 4 eexists. split; [exact Hf|exact Hb]. }
  assert (w' = w4) as -> by (destruct rG; inv H; reflexivity).
  eapply from_cycle_trans; [exact H1|]. eapply from_cycle_trans; [exact H2|]. eapply from_cycle_trans; eassumption.
Qed.

(* ---------------------------------------------------------------------------------------- *)
(* histories *)
Definition end_store (fx : fixes) (h : list cyc) (s : store) : store :=
  fold_left (fun s c => w_store (snd (run_cycle fx c s))) h s.

Lemma end_store_snoc fx h c s : end_store fx (h ++ [c]) s = w_store (snd (run_cycle fx c (end_store fx h s))).
Proof. unfold end_store. rewrite fold_left_app. reflexivity. Qed.

Definition known_ts (s0 : store) (h : list cyc) (x : timestamp) : Prop :=
  st_ts s0 = Some (SDoc x) \/ exists c, In c h /\ served_ts c x.
Definition known_snap (s0 : store) (h : list cyc) (x : snapshot) : Prop :=
  st_snap s0 = Some (SDoc x) \/ exists c, In c h /\ served_snap c x.
Definition known_tgt (s0 : store) (h : list cyc) (x : targets) : Prop :=
  st_tgt s0 = Some (SDoc x) \/ exists c, In c h /\ served_tgt c x.
Definition known_time (s0 : store) (h : list cyc) (t : Z) : Prop :=
  st_time s0 = Some (SDoc t) \/ exists c, In c h /\ cy_now c = t.

Theorem store_provenance : forall h s0,
  (forall x, st_ts (end_store fixed h s0) = Some (SDoc x) -> known_ts s0 h x)
  /\ (forall x, st_snap (end_store fixed h s0) = Some (SDoc x) -> known_snap s0 h x)
  /\ (forall x, st_tgt (end_store fixed h s0) = Some (SDoc x) -> known_tgt s0 h x)
  /\ (forall t, st_time (end_store fixed h s0) = Some (SDoc t) -> known_time s0 h t).
Proof.
  intros h s0. induction h as [|c h IH] using rev_ind.
  { cbn. repeat split; intros x E; left; exact E. }
  rewrite end_store_snoc. set (s := end_store fixed h s0) in *.
  destruct (run_cycle fixed c s) as [res w'] eqn:E. cbn [snd].
  pose proof (cycle_from _ _ _ _ E) as (T & S & G). pose proof (cycle_tstep _ _ _ _ E) as Tm.
  destruct IH as (IT & IS & IG & ITm).
  assert (Old : forall c', In c' h -> In c' (h ++ [c])) by (intros; apply in_or_app; left; assumption).
  assert (New : In c (h ++ [c])) by (apply in_or_app; right; left; reflexivity).
  split; [|split; [|split]].
  - intros x Ex. destruct T as [T|[T|(y & T & Hy)]]; rewrite T in Ex; [|discriminate|].
    + destruct (IT x Ex) as [K|(c' & Hin & K)]; [left; exact K|right; exists c'; auto].
    + inv Ex. right. exists c. auto.
  - intros x Ex. destruct S as [S|[S|(y & S & Hy)]]; rewrite S in Ex; [|discriminate|].
    + destruct (IS x Ex) as [K|(c' & Hin & K)]; [left; exact K|right; exists c'; auto].
    + inv Ex. right. exists c. auto.
  - intros x Ex. destruct G as [G|(y & G & Hy)]; rewrite G in Ex.
    + destruct (IG x Ex) as [K|(c' & Hin & K)]; [left; exact K|right; exists c'; auto].
    + inv Ex. right. exists c. auto.
  - intros t Et. destruct Tm as [Tm|Tm]; rewrite Tm in Et.
    + destruct (ITm t Et) as [K|(c' & Hin & K)]; [left; exact K|right; exists c'; auto].
    + inv Et. right. exists c. auto.
Qed.

(* ---------------------------------------------------------------------------------------- *)
(* never locked out *)
Theorem never_locked_out h s0 c r ts sn t0 t :
  cy_fault c = None ->
  (* the clock has not gone back *)
  (forall tm, known_time s0 h tm -> (tm <= cy_now c)%Z) ->
  (* the repository is valid: root walk ends with r, all documents fit, verify and are unexpired *)
  final_root fixed c = Some r ->
  (c_enforce (cy_cfg c) = true -> (cy_now c <= r_expires r)%Z) ->
  ts_accepted (cy_cfg c) r (cy_srv c) (cy_now c) store0 ts ->
  snap_accepted (cy_cfg c) r ts (cy_srv c) (cy_now c) store0 sn ->
  tgt_accepted (cy_cfg c) r sn (cy_srv c) (cy_now c) store0 t0 ->
  tgt_tree (cy_cfg c) (cy_srv c) sn (r_cs r) t0 t -> validate t = true ->
  (* and at least as new as everything the datastore ever held or earlier cycles were served *)
  (forall x, known_ts s0 h x -> root_verify r 3 (ts_sigs x) = true -> ts_version x <= ts_version ts) ->
  (forall x, known_snap s0 h x -> root_verify r 1 (sn_sigs x) = true -> snap_rollback_ok x sn) ->
  (forall x, known_tgt s0 h x -> root_verify r 2 (tg_sigs x) = true -> tg_version x <= tg_version t0) ->
  exists w', run_cycle fixed c (end_store fixed h s0)
             = (Ok {| rp_root := r; rp_ts := ts; rp_snap := sn; rp_targets := t |}, w').
Proof.
  intros Hflt Hclk Hfr Hre (A1 & A2 & _ & A4) (B1 & B2 & _ & B4) (C1 & C2 & _ & C4) HT Hval NT NS NG.
  destruct (store_provenance h s0) as (PT & PS & PG & PTm).
  apply cycle_live with (t0 := t0); auto.
  - unfold clock_fwd, time_back. destruct (st_time (end_store fixed h s0)) as [[|tm]|] eqn:Et; try reflexivity.
    apply Z.ltb_ge. apply Hclk. apply PTm. reflexivity.
  - split; [exact A1|]. split; [exact A2|]. split; [|exact A4]. intros old Eo. apply NT, PT, Eo.
  - split; [exact B1|]. split; [exact B2|]. split; [|exact B4]. intros old Eo. apply NS, PS, Eo.
  - split; [exact C1|]. split; [exact C2|]. split; [|exact C4]. intros old Eo. apply NG, PG, Eo.
Qed.

(* non-vacuity: after a successful cycle (timestamp 5) and a cycle killed in the middle of the write of
   timestamp 6, the repository with timestamp 6 meets every premise of the theorem *)
Example never_locked_out_example :
  let h := [w_cyc false 5 3 None; w_cyc false 6 3 (Some (1%nat, 2))] in
  let c := w_cyc false 6 3 None in
  exists w', run_cycle fixed c (end_store fixed h store0)
             = (Ok {| rp_root := w_root 1 3; rp_ts := w_ts 6 5 3; rp_snap := w_snap 5; rp_targets := w_targets |}, w').
Proof.
  intros h c. apply never_locked_out with (t0 := w_targets).
  - reflexivity.
  - intros tm [E|(c' & Hin & E)]; [discriminate|]. destruct Hin as [<-|[<-|[]]]; cbn in E; subst tm; cbn; lia.
  - vm_compute. reflexivity.
  - intro E. discriminate.
  - split; [eexists; split; [vm_compute; reflexivity|reflexivity]|]. split; [vm_compute; reflexivity|].
    split; [intros old E; discriminate|intro E; discriminate].
  - split; [do 2 eexists; split; [vm_compute; reflexivity|]; split; [vm_compute; reflexivity|]; split; reflexivity|].
    split; [vm_compute; reflexivity|]. split; [intros old E; discriminate|intro E; discriminate].
  - split; [do 2 eexists; split; [vm_compute; reflexivity|]; split; [vm_compute; reflexivity|]; split; reflexivity|].
    split; [vm_compute; reflexivity|]. split; [intros old E; discriminate|intro E; discriminate].
  - left. split; reflexivity.
  - vm_compute. reflexivity.
  - intros x [E|(c' & Hin & file & Hf & Hb)] _; [discriminate|].
    destruct Hin as [<-|[<-|[]]]; vm_compute in Hf; inversion Hf; subst file; cbn in Hb; inversion Hb; cbn; lia.
  - intros x [E|(c' & Hin & name & limit & hash & file & Hf & Hb)] _; [discriminate|].
    assert (x = w_snap 5) as ->.
    { destruct Hin as [<-|[<-|[]]]; unfold fetch in Hf; cbn [cy_srv w_cyc w_srv app] in Hf;
        cbn [lookup] in Hf;
        repeat match type of Hf with
               | context [bytes_eqb name ?n] => destruct (bytes_eqb name n)
               end; cbn in Hf; repeat break_hyp Hf; try discriminate; inversion Hf; subst file; cbn in Hb;
        try discriminate; inversion Hb; reflexivity. }
    split; [cbn; lia|]. intros om E. exists om. split; [exact E|lia].
  - intros x [E|(c' & Hin & name & limit & hash & file & Hf & Hb)] _; [discriminate|].
    assert (x = w_targets) as ->.
    { destruct Hin as [<-|[<-|[]]]; unfold fetch in Hf; cbn [cy_srv w_cyc w_srv app] in Hf;
        cbn [lookup] in Hf;
        repeat match type of Hf with
               | context [bytes_eqb name ?n] => destruct (bytes_eqb name n)
               end; cbn in Hf; repeat break_hyp Hf; try discriminate; inversion Hf; subst file; cbn in Hb;
        try discriminate; inversion Hb; reflexivity. }
    cbn. lia.
Qed.

(* recovery after the online keys were replaced: documents signed only by the old keys impose nothing *)
Corollary recovery_after_rotation h s0 c r ts sn t0 t :
  cy_fault c = None ->
  (forall tm, known_time s0 h tm -> (tm <= cy_now c)%Z) ->
  final_root fixed c = Some r ->
  (c_enforce (cy_cfg c) = true -> (cy_now c <= r_expires r)%Z) ->
  ts_accepted (cy_cfg c) r (cy_srv c) (cy_now c) store0 ts ->
  snap_accepted (cy_cfg c) r ts (cy_srv c) (cy_now c) store0 sn ->
  tgt_accepted (cy_cfg c) r sn (cy_srv c) (cy_now c) store0 t0 ->
  tgt_tree (cy_cfg c) (cy_srv c) sn (r_cs r) t0 t -> validate t = true ->
  (forall x, known_ts s0 h x -> root_verify r 3 (ts_sigs x) = false) ->
  (forall x, known_snap s0 h x -> root_verify r 1 (sn_sigs x) = false) ->
  (forall x, known_tgt s0 h x -> root_verify r 2 (tg_sigs x) = true -> tg_version x <= tg_version t0) ->
  exists w', run_cycle fixed c (end_store fixed h s0)
             = (Ok {| rp_root := r; rp_ts := ts; rp_snap := sn; rp_targets := t |}, w').
Proof.
  intros Hflt Hclk Hfr Hre A B C HT Hval NT NS NG.
  apply never_locked_out with (t0 := t0); auto.
  - intros x K V. rewrite (NT x K) in V. discriminate.
  - intros x K V. rewrite (NS x K) in V. discriminate.
Qed.
