(* "... and only of it" for an arbitrary normalisation function: the canonical form under [nfc] is the
   canonical form under the identity of the value with [nfc] applied to every string and member name,
   so the injectivity of the ASCII formatter (Proofs/SchemaP.v, canonical_form_determines_value)
   carries over: two values have the same canonical form iff they agree after normalising strings
   and names and sorting members. *)
From ToughV Require Import Model.Base Model.Json Model.CJson Model.Schema
     Proofs.BaseP Proofs.CJsonP Proofs.CJsonInjP Proofs.SchemaP.

Fixpoint jmap (f : bytes -> bytes) (v : jv) : jv :=
  match v with
  | JStr s => JStr (f s)
  | JArr l => JArr (map (jmap f) l)
  | JObj m => JObj (map (fun kv => (f (fst kv), jmap f (snd kv))) m)
  | _ => v
  end.

Section Nfc.
  Variable nfc : bytes -> bytes.

  Lemma canon_spec_jmap v : canon_spec nfc v = cs (jmap nfc v).
  Proof.
    induction v as [| bb | z | | s | l IHl | m IHm] using jv_ind2; try reflexivity.
    - (* array *)
      cbn [jmap canon_spec].
      assert (G : forall first,
        (fix go (first : bool) (l : list jv) : option bytes :=
           match l with
           | [] => Some []
           | x :: t => match canon_spec nfc x, go false t with
                       | Some b, Some r => Some ((if first then [] else [44]) ++ b ++ r)
                       | _, _ => None
                       end
           end) first l =
        (fix go (first : bool) (l : list jv) : option bytes :=
           match l with
           | [] => Some []
           | x :: t => match cs x, go false t with
                       | Some b, Some r => Some ((if first then [] else [44]) ++ b ++ r)
                       | _, _ => None
                       end
           end) first (map (jmap nfc) l)).
      { induction IHl as [|x t Hx Ht IH]; intro first; [reflexivity|].
        cbn [map]. rewrite Hx, (IH false). reflexivity. }
      rewrite (G true). reflexivity.
    - (* object *)
      cbn [jmap canon_spec].
      assert (G :
        (fix go (m : list (bytes * jv)) : option (list (bytes * bytes)) :=
           match m with
           | [] => Some []
           | (k, x) :: t => match canon_spec nfc x, go t with
                            | Some b, Some r => Some ((nfc k, b) :: r)
                            | _, _ => None
                            end
           end) m =
        (fix go (m : list (bytes * jv)) : option (list (bytes * bytes)) :=
           match m with
           | [] => Some []
           | (k, x) :: t => match cs x, go t with
                            | Some b, Some r => Some ((k, b) :: r)
                            | _, _ => None
                            end
           end) (map (fun kv => (nfc (fst kv), jmap nfc (snd kv))) m)).
      { induction IHm as [|[k x] t Hx Ht IH]; [reflexivity|].
        cbn [map fst snd]. cbn [snd] in Hx. rewrite Hx, IH. reflexivity. }
      rewrite G. reflexivity.
  Qed.

  (* the value, as far as the canonical form can see it: strings and names normalised, members sorted *)
  Definition observable (v : jv) : jv := jnorm (jmap nfc v).

  Theorem canon_only_of_it v1 v2 b :
    canon_spec nfc v1 = Some b ->
    (canon_spec nfc v2 = Some b <-> (observable v2 = observable v1 /\ canon_spec nfc v2 <> None)).
  Proof.
    rewrite !canon_spec_jmap. unfold observable. apply canonical_form_determines_value.
  Qed.

  Corollary canon_injective v1 v2 b :
    canon_spec nfc v1 = Some b -> canon_spec nfc v2 = Some b -> observable v1 = observable v2.
  Proof.
    intros H1 H2. symmetry. exact (proj1 (proj1 (canon_only_of_it v1 v2 b H1) H2)).
  Qed.

  Corollary canon_depends_on_observable v1 v2 :
    observable v1 = observable v2 -> canon_spec nfc v1 <> None -> canon_spec nfc v2 <> None ->
    canon_spec nfc v1 = canon_spec nfc v2.
  Proof.
    intros E N1 N2. destruct (canon_spec nfc v1) as [b|] eqn:C1; [|contradiction].
    symmetry. apply (proj2 (canon_only_of_it v1 v2 b C1)). split; [symmetry; exact E|exact N2].
  Qed.
End Nfc.
