(* C10 with delegated roles: what the editor signs and writes for a repository with a tree of delegated
   roles (Model/EditorRT.v ed_sign_tree), the client loads back unchanged (run_cycle fixed). The client
   side is Proofs/LivenessP.v (cycle_live over the [tree] predicate); this file shows that the files and
   the snapshot the editor writes satisfy that predicate. *)
From ToughV Require Import Model.Base Model.Pct Model.Sig Model.Glob Model.Deleg Model.Client Model.EditorRT.
From ToughV Require Import Proofs.BaseP Proofs.PctP Proofs.SigP Proofs.ClientP Proofs.RollbackP Proofs.DelegLoadP
     Proofs.LivenessP Proofs.EditorRTP.
From Coq Require Import ZifyBool ZifyN ZifyNat.

(* ---------------------------------------------------------------------------------------- *)
(* induction over a tree of roles *)
Section EnodeInd.
  Variable P : enode -> Prop.
  Hypothesis Hnode : forall h v e en dk ch sg, Forall P ch -> P (ENode h v e en dk ch sg).
  Fixpoint enode_ind' (n : enode) : P n :=
    match n return P n with
    | ENode h v e en dk ch sg =>
        Hnode h v e en dk ch sg
              ((fix go (l : list enode) : Forall P l :=
                  match l return Forall P l with
                  | [] => Forall_nil P
                  | c :: r => Forall_cons c (enode_ind' c) (go r)
                  end) ch)
    end.
End EnodeInd.

Definition names (l : list enode) : list bytes := map en_name l.

Lemma en_flat_eq n : en_flat n = n :: all_roles (en_children n).
Proof. destruct n; reflexivity. Qed.

Lemma in_flat_self n : In n (en_flat n).
Proof. rewrite en_flat_eq. left. reflexivity. Qed.

Lemma in_all_roles c ch : In c ch -> In c (all_roles ch).
Proof. intro H. apply in_flat_map. exists c. split; [exact H|apply in_flat_self]. Qed.

Lemma in_all_roles_sub c ch x : In c ch -> In x (en_flat c) -> In x (all_roles ch).
Proof. intros H Hx. apply in_flat_map. exists c. auto. Qed.

(* a child of a role of the subtree of [p] is one of the roles below [p] *)
Lemma child_in_flat p : forall q c, In q (en_flat p) -> In c (en_children q) -> In c (all_roles (en_children p)).
Proof.
  induction p as [h v e en dk ch sg IH] using enode_ind'. intros q c Hq Hc.
  rewrite en_flat_eq in Hq. cbn [en_children] in *. destruct Hq as [Hq|Hq].
  - subst q. cbn [en_children] in Hc. apply in_all_roles, Hc.
  - apply in_flat_map in Hq as (c0 & Hc0 & Hq). rewrite Forall_forall in IH.
    pose proof (IH c0 Hc0 q c Hq Hc) as Hin. eapply in_all_roles_sub; [exact Hc0|].
    rewrite en_flat_eq. right. exact Hin.
Qed.

(* ---------------------------------------------------------------------------------------- *)
(* lists without repetition *)
Lemma NoDup_app_disjoint {A} (a b : list A) x : NoDup (a ++ b) -> In x a -> ~ In x b.
Proof.
  induction a as [|y a IH]; intros ND Ha Hb; [contradiction|]. cbn [app] in ND. inversion ND as [|? ? Hy ND']; subst.
  destruct Ha as [->|Ha]; [apply Hy, in_or_app; right; exact Hb|exact (IH ND' Ha Hb)].
Qed.

Lemma NoDup_app_remove_l {A} (a b : list A) : NoDup (a ++ b) -> NoDup b.
Proof. induction a as [|y a IH]; intro ND; [exact ND|]. cbn [app] in ND. inversion ND; subst. auto. Qed.
Lemma NoDup_app_remove_r {A} (a b : list A) : NoDup (a ++ b) -> NoDup a.
Proof.
  induction a as [|y a IH]; intro ND; [constructor|]. cbn [app] in ND. inversion ND as [|? ? Hy ND']; subst.
  constructor; [intro H; apply Hy, in_or_app; left; exact H|auto].
Qed.

Lemma names_all_roles_app l1 l2 : names (all_roles (l1 ++ l2)) = names (all_roles l1) ++ names (all_roles l2).
Proof. unfold names, all_roles. rewrite flat_map_app, map_app. reflexivity. Qed.

Lemma names_all_roles_cons c l : names (all_roles (c :: l)) = names (en_flat c) ++ names (all_roles l).
Proof. unfold names, all_roles. cbn [flat_map]. rewrite map_app. reflexivity. Qed.

Lemma names_flat c : names (en_flat c) = en_name c :: names (all_roles (en_children c)).
Proof. rewrite en_flat_eq. reflexivity. Qed.

(* splitting the roles below a list of siblings at one of them *)
Lemma nodup_split l1 c l2 : NoDup (names (all_roles (l1 ++ c :: l2))) ->
  NoDup (names (en_flat c))
  /\ (forall x, In x (names (all_roles l1)) -> ~ In x (names (en_flat c)))
  /\ (forall x, In x (names (en_flat c)) -> ~ In x (names (all_roles l2))).
Proof.
  rewrite names_all_roles_app, names_all_roles_cons. intro ND. split; [|split].
  - apply NoDup_app_remove_l in ND. apply NoDup_app_remove_r in ND. exact ND.
  - intros x Hx Hc. eapply NoDup_app_disjoint; [exact ND|exact Hx|]. apply in_or_app. left. exact Hc.
  - intros x Hx. apply NoDup_app_remove_l in ND. eapply NoDup_app_disjoint; [exact ND|exact Hx].
Qed.

Lemma in_names x l : In x l -> In (en_name x) (names l).
Proof. apply (in_map en_name). Qed.

Lemma nodup_siblings ch : NoDup (names (all_roles ch)) -> NoDup (names ch).
Proof.
  induction ch as [|c r IH]; intro ND; [constructor|]. cbn [names map]. fold (names r).
  destruct (nodup_split [] c r ND) as (Hc & _ & Hd). constructor.
  - intro Hin. apply (Hd (en_name c)); [apply in_names, in_flat_self|].
    unfold names in Hin. apply in_map_iff in Hin as (x & Ex & Hx). rewrite <- Ex. apply in_names, in_all_roles, Hx.
  - apply IH. rewrite names_all_roles_cons in ND. apply NoDup_app_remove_l in ND. exact ND.
Qed.

Lemma nodup_child ch c : NoDup (names (all_roles ch)) -> In c ch ->
  NoDup (names (all_roles (en_children c))) /\ ~ In (en_name c) (names (all_roles (en_children c))).
Proof.
  intros ND Hc. apply in_split in Hc as (l1 & l2 & ->). destruct (nodup_split l1 c l2 ND) as (Hn & _ & _).
  rewrite names_flat in Hn. inversion Hn; subst. auto.
Qed.

(* ---------------------------------------------------------------------------------------- *)
(* Targets::parent_of finds the delegating role when role names are pairwise distinct *)
Fixpoint parent_go (pin : enode -> option (list N * list enode)) (name : bytes) (res : list N * list enode)
         (l : list enode) : option (list N * list enode) :=
  match l with
  | [] => None
  | c :: rest => if bytes_eqb (en_name c) name then Some res
                 else match pin c with
                      | Some x => Some x
                      | None => parent_go pin name res rest
                      end
  end.

Lemma parent_in_eq name n :
  parent_in name n = parent_go (parent_in name) name (en_dkeys n, en_children n) (en_children n).
Proof.
  destruct n as [h v e en dk ch sg]. cbn [parent_in en_dkeys en_children].
  set (res := (dk, ch)). clearbody res. induction ch as [|c r IH]; [reflexivity|]. cbn [parent_go]. rewrite <- IH. reflexivity.
Qed.

Lemma parent_go_skip pin name res l1 l2 :
  (forall c, In c l1 -> en_name c <> name /\ pin c = None) ->
  parent_go pin name res (l1 ++ l2) = parent_go pin name res l2.
Proof.
  induction l1 as [|c r IH]; intro H; [reflexivity|]. cbn [app parent_go].
  destruct (H c (or_introl eq_refl)) as [Hn Hp]. apply bytes_eqb_neq in Hn. rewrite Hn, Hp.
  apply IH. intros x Hx. apply H. right. exact Hx.
Qed.

Lemma parent_in_none p : forall name, ~ In name (names (all_roles (en_children p))) -> parent_in name p = None.
Proof.
  induction p as [h v e en dk ch sg IH] using enode_ind'. intros name Hn. rewrite parent_in_eq.
  cbn [en_dkeys en_children] in *. set (res := (dk, ch)). clearbody res.
  rewrite <- (app_nil_r ch). rewrite parent_go_skip; [reflexivity|].
  intros c Hc. rewrite Forall_forall in IH. split.
  - intro E. apply Hn. rewrite <- E. apply in_names, in_all_roles, Hc.
  - apply IH; [exact Hc|]. intro Hin. apply Hn. unfold names in *. apply in_map_iff in Hin as (x & Ex & Hx).
    rewrite <- Ex. apply in_names. eapply in_all_roles_sub; [exact Hc|]. rewrite en_flat_eq. right. exact Hx.
Qed.

Lemma parent_in_child p c : NoDup (names (all_roles (en_children p))) -> In c (en_children p) ->
  parent_in (en_name c) p = Some (en_dkeys p, en_children p).
Proof.
  intros ND Hc. rewrite parent_in_eq. set (res := (en_dkeys p, en_children p)). clearbody res.
  apply in_split in Hc as (l1 & l2 & E). rewrite E. rewrite E in ND.
  destruct (nodup_split l1 c l2 ND) as (_ & Hd & _). rewrite parent_go_skip.
  - cbn [parent_go]. rewrite bytes_eqb_refl. reflexivity.
  - intros x Hx. split.
    + intro Ex. apply (Hd (en_name c)); [rewrite <- Ex; apply in_names, in_all_roles, Hx|apply in_names, in_flat_self].
    + apply parent_in_none. intro Hin. apply (Hd (en_name c)); [|apply in_names, in_flat_self].
      unfold names in *. apply in_map_iff in Hin as (y & Ey & Hy). rewrite <- Ey. apply in_names.
      eapply in_all_roles_sub; [exact Hx|]. rewrite en_flat_eq. right. exact Hy.
Qed.

Lemma parent_in_desc p : NoDup (names (all_roles (en_children p))) ->
  forall q c, In q (all_roles (en_children p)) -> In c (en_children q) ->
  parent_in (en_name c) p = Some (en_dkeys q, en_children q).
Proof.
  induction p as [h v e en dk ch sg IH] using enode_ind'. intros ND q c Hq Hc. cbn [en_children] in *.
  apply in_flat_map in Hq as (c0 & Hc0 & Hq).
  pose proof (child_in_flat c0 q c Hq Hc) as Hcin.
  rewrite Forall_forall in IH. pose proof (IH c0 Hc0) as IH0.
  rewrite parent_in_eq. cbn [en_dkeys en_children]. set (res := (dk, ch)). clearbody res.
  apply in_split in Hc0 as (l1 & l2 & E). rewrite E. rewrite E in ND.
  destruct (nodup_split l1 c0 l2 ND) as (Hn0 & Hd & _).
  assert (Hcn : In (en_name c) (names (en_flat c0))).
  { rewrite names_flat. right. apply in_names, Hcin. }
  rewrite parent_go_skip.
  - cbn [parent_go]. rewrite names_flat in Hn0. inversion Hn0 as [|? ? Hnot ND0]; subst.
    assert (bytes_eqb (en_name c0) (en_name c) = false) as ->.
    { apply bytes_eqb_neq. intro Ex. apply Hnot. rewrite Ex. apply in_names, Hcin. }
    rewrite en_flat_eq in Hq. destruct Hq as [Hq|Hq].
    + subst q. rewrite (parent_in_child c0 c ND0 Hc). reflexivity.
    + rewrite (IH0 ND0 q c Hq Hc). reflexivity.
  - intros x Hx. split.
    + intro Ex. apply (Hd (en_name c)); [rewrite <- Ex; apply in_names, in_all_roles, Hx|exact Hcn].
    + apply parent_in_none. intro Hin. apply (Hd (en_name c)); [|exact Hcn].
      unfold names in *. apply in_map_iff in Hin as (y & Ey & Hy). rewrite <- Ey. apply in_names.
      eapply in_all_roles_sub; [exact Hx|]. rewrite en_flat_eq. right. exact Hy.
Qed.

(* the delegating role of every role of the tree *)
Lemma parent_in_tree top q c : NoDup (names (all_roles (en_children top))) ->
  In q (en_flat top) -> In c (en_children q) ->
  parent_in (en_name c) top = Some (en_dkeys q, en_children q).
Proof.
  intros ND Hq Hc. rewrite en_flat_eq in Hq. destruct Hq as [Hq|Hq].
  - subst q. apply parent_in_child; assumption.
  - eapply parent_in_desc; eassumption.
Qed.

(* ---------------------------------------------------------------------------------------- *)
(* a directory written file by file / a map filled entry by entry *)
Lemma lookup_write_all_other {V} k (l : list (bytes * V)) : forall m,
  ~ In k (map fst l) -> lookup k (write_all l m) = lookup k m.
Proof.
  induction l as [|[k' v'] r IH]; intros m Hn; [reflexivity|]. cbn [write_all]. rewrite IH.
  - apply lookup_insert_other. intro E. apply Hn. left. symmetry. exact E.
  - intro Hin. apply Hn. right. exact Hin.
Qed.

Lemma lookup_write_all_in {V} k (v : V) (l : list (bytes * V)) : forall m,
  NoDup (map fst l) -> In (k, v) l -> lookup k (write_all l m) = Some v.
Proof.
  induction l as [|[k' v'] r IH]; intros m ND Hin; [contradiction|]. cbn [write_all].
  cbn [map fst] in ND. inversion ND as [|? ? Hnot ND']; subst. destruct Hin as [E|Hin].
  - inversion E; subst. rewrite lookup_write_all_other by exact Hnot. apply lookup_insert_same.
  - apply IH; assumption.
Qed.

(* ---------------------------------------------------------------------------------------- *)
(* file names: a delegated role's file is no top-level file *)
Definition small (n : bytes) : Prop := Forall (fun c => c < 256) n.

Lemma small_targets : small name_targets_role. Proof. repeat (constructor; [reflexivity|]). constructor. Qed.
Lemma small_snapshot : small name_snapshot_role. Proof. repeat (constructor; [reflexivity|]). constructor. Qed.
Lemma small_timestamp : small name_timestamp_role. Proof. repeat (constructor; [reflexivity|]). constructor. Qed.
Lemma small_root : small name_root_role. Proof. repeat (constructor; [reflexivity|]). constructor. Qed.

Lemma versioned_targets_role cs v : versioned cs v name_targets = role_filename cs v name_targets_role.
Proof. unfold versioned, role_filename. destruct cs; [rewrite <- app_assoc|]; reflexivity. Qed.
Lemma versioned_snapshot_role cs v : versioned cs v name_snapshot = role_filename cs v name_snapshot_role.
Proof. unfold versioned, role_filename. destruct cs; [rewrite <- app_assoc|]; reflexivity. Qed.
Lemma root_json_role v : root_json v = role_filename true v name_root_role.
Proof. unfold root_json, role_filename. rewrite <- app_assoc. reflexivity. Qed.

Lemma role_file_neq_timestamp cs v n : small n -> n <> name_timestamp_role ->
  role_filename cs v n <> name_timestamp.
Proof.
  intros Hs Hn. destruct cs.
  - unfold role_filename. rewrite <- app_assoc. apply digit_prefixed_neq_plain; [apply lf_timestamp|discriminate].
  - change name_timestamp with (role_filename false 0 name_timestamp_role).
    apply role_filename_distinct; [exact Hs|apply small_timestamp|exact Hn].
Qed.

Lemma is_digit_unreserved c : is_digit c = true -> unreserved c = true.
Proof. unfold is_digit, unreserved, is_alnum. lia. Qed.

Lemma pct_encode_unreserved s : Forall (fun c => unreserved c = true) s -> pct_encode s = s.
Proof.
  induction 1 as [|c s Hc Hs IH]; [reflexivity|]. cbn [pct_encode]. unfold pct_byte. rewrite Hc, IH. reflexivity.
Qed.

Definition dot_root : bytes := [46; 114; 111; 111; 116].
(* the one delegated role name whose file is the next root file when file names carry no version *)
Definition next_root_role (r : root) : bytes := dec (r_version r + 1) ++ dot_root.

Lemma role_file_eq_root_json v n v' : small n -> role_filename false v n = root_json v' -> n = dec v' ++ dot_root.
Proof.
  intros Hs E. unfold role_filename, root_json in E. cbn [app] in E.
  change [46; 114; 111; 111; 116; 46; 106; 115; 111; 110] with (dot_root ++ dot_json) in E.
  rewrite app_assoc in E. apply app_inv_tail in E.
  assert (Hu : Forall (fun c => unreserved c = true) (dec v' ++ dot_root)).
  { apply Forall_app. split.
    - eapply Forall_impl; [|apply dec_digits]. apply is_digit_unreserved.
    - repeat (constructor; [reflexivity|]). constructor. }
  rewrite <- (pct_encode_unreserved _ Hu) in E. apply pct_encode_injective in E; [exact E|exact Hs|].
  eapply Forall_impl; [|exact Hu]. intros c Hc. unfold unreserved, is_alnum in Hc. lia.
Qed.

Lemma role_file_neq_root_json cs v n v' : small n -> n <> name_root_role -> (cs = false -> n <> dec v' ++ dot_root) ->
  role_filename cs v n <> root_json v'.
Proof.
  intros Hs Hn Hd. destruct cs.
  - rewrite root_json_role. apply role_filename_distinct; [exact Hs|apply small_root|exact Hn].
  - intro E. apply (Hd eq_refl). eapply role_file_eq_root_json; eassumption.
Qed.

Lemma json_of_inj a b : json_of a = json_of b -> a = b.
Proof. unfold json_of. apply app_inv_tail. Qed.

Lemma not_top_name n : mem_bytes n top_role_names = false ->
  n <> name_root_role /\ n <> name_snapshot_role /\ n <> name_targets_role /\ n <> name_timestamp_role.
Proof.
  intro H. unfold top_role_names in H. cbn [mem_bytes] in H. rewrite !orb_false_iff in H.
  destruct H as (A & B & C & D & _). rewrite !bytes_eqb_neq in *. auto.
Qed.

Lemma Forall2_map_same {A B C} (R : B -> C -> Prop) (f : A -> B) (g : A -> C) l :
  (forall x, In x l -> R (f x) (g x)) -> Forall2 R (map f l) (map g l).
Proof.
  induction l as [|x l IH]; intro H; cbn [map]; constructor.
  - apply H. left. reflexivity.
  - apply IH. intros y Hy. apply H. right. exact Hy.
Qed.

Lemma en_loaded_eq c : en_loaded c = tg_set_roles (en_file_doc c) (loaded_roles (en_children c)).
Proof. destruct c; reflexivity. Qed.

(* ---------------------------------------------------------------------------------------- *)
(* the written tree is loadable: the [tree] predicate of Proofs/LivenessP.v *)
Section Build.
  Variables (len_of dig_of : content -> N).
  Variables (cfg : config) (srv : server) (sn : snapshot) (cs : bool).

  (* the snapshot lists the role's written file exactly, and the file is served under the role's file name *)
  Definition listed (c : enode) : Prop :=
    lookup (json_of (en_name c)) (sn_meta sn) = Some (meta_of len_of dig_of (en_version c) (CTargets (en_file_doc c)))
    /\ fetch srv (role_filename cs (en_version c) (en_name c)) (len_of (CTargets (en_file_doc c)))
             (Some (dig_of (CTargets (en_file_doc c)))) = FOk (mkfile len_of dig_of (CTargets (en_file_doc c))).

  Definition good (q : enode) : Prop :=
    forall c, In c (en_children q) ->
      deleg_verify fixed (en_dkeys q) (hdrs_of (en_children q)) (en_name c) (en_sigs c) = true /\ listed c.

  Lemma build p : (forall q, In q (en_flat p) -> good q) ->
    forall fuel anc, (en_depth p <= fuel)%nat ->
    NoDup (names (all_roles (en_children p))) ->
    (forall n, In n (all_roles (en_children p)) -> ~ In (en_name n) anc) ->
    tree cfg srv sn cs fuel anc (en_dkeys p) (hdrs_of (en_children p)) (loaded_roles (en_children p)).
  Proof.
    induction p as [h v e en dk ch sg IH] using enode_ind'. intros Hgood fuel anc Hfuel ND Hanc.
    cbn [en_dkeys en_children en_depth] in *. destruct fuel as [|fuel]; [lia|]. cbn [tree]. split.
    - unfold hdrs_of. rewrite map_map. cbn [fst]. apply nodup_siblings in ND. exact ND.
    - unfold hdrs_of, loaded_roles. apply Forall2_map_same. intros c Hc. cbn [fst snd].
      split; [reflexivity|]. split; [apply Hanc, in_all_roles, Hc|].
      destruct (Hgood _ (in_flat_self _) c Hc) as (Hver & Hl & Hf).
      exists (en_file_doc c). split.
      + exists (meta_of len_of dig_of (en_version c) (CTargets (en_file_doc c))), (mkfile len_of dig_of (CTargets (en_file_doc c))).
        split; [exact Hl|]. cbn [meta_of m_version m_length m_hash opt_default]. split; [exact Hf|].
        split; [reflexivity|]. split; [exact Hver|]. destruct c; reflexivity.
      + right. split; [destruct c; reflexivity|]. exists (loaded_roles (en_children c)).
        split; [rewrite en_loaded_eq; reflexivity|].
        rewrite Forall_forall in IH.
        assert (Hd : (en_depth c <= fuel)%nat).
        { assert (Hle : (list_max (map en_depth ch) <= fuel)%nat) by lia. rewrite list_max_le in Hle.
          rewrite Forall_forall in Hle. apply Hle. apply in_map, Hc. }
        destruct (nodup_child ch c ND Hc) as (NDc & Hnc).
        replace (tg_dkeys (en_file_doc c)) with (en_dkeys c) by (destruct c; reflexivity).
        replace (tg_roles (en_file_doc c)) with (hdrs_of (en_children c)) by (destruct c; reflexivity).
        apply IH; [exact Hc| |exact Hd|exact NDc|].
        * intros q Hq. apply Hgood. rewrite en_flat_eq. right. eapply in_all_roles_sub; eassumption.
        * intros n Hn Hin. apply in_app_or in Hin as [Hin|[Hin|[]]].
          -- revert Hin. apply Hanc. eapply in_all_roles_sub; [exact Hc|]. rewrite en_flat_eq. right. exact Hn.
          -- apply Hnc. fold (en_name c) in Hin. rewrite Hin. apply in_names, Hn.
  Qed.
End Build.

(* ---------------------------------------------------------------------------------------- *)
(* what ed_sign_tree writes *)
Lemma NoDup_map_from {A B C} (f : A -> B) (g : A -> C) l :
  NoDup (map g l) -> (forall x y, In x l -> In y l -> f x = f y -> g x = g y) -> NoDup (map f l).
Proof.
  induction l as [|a l IH]; intros ND Hinj; [constructor|]. cbn [map] in *. inversion ND as [|? ? Hnot ND']; subst.
  constructor.
  - intro Hin. apply in_map_iff in Hin as (y & Ey & Hy). apply Hnot.
    rewrite (Hinj a y (or_introl eq_refl) (or_intror Hy) (eq_sym Ey)). apply in_map, Hy.
  - apply IH; [exact ND'|]. intros x y Hx Hy. apply Hinj; right; assumption.
Qed.

Lemma lookup_write_all_inv {V} k (v : V) (l : list (bytes * V)) m :
  lookup k (write_all l m) = Some v -> In k (map fst l) \/ lookup k m = Some v.
Proof.
  intro H. destruct (in_dec (list_eq_dec N.eq_dec) k (map fst l)) as [Hin|Hn]; [left; exact Hin|].
  right. rewrite lookup_write_all_other in H by exact Hn. exact H.
Qed.

Section Written.
  Variables (len_of dig_of : content -> N).

  Lemma fetch_mkfile srv name c limit hash :
    lookup name srv = Some (Served (mkfile len_of dig_of c)) -> len_of c <= limit ->
    (hash = None \/ hash = Some (dig_of c)) ->
    fetch srv name limit hash = FOk (mkfile len_of dig_of c).
  Proof.
    intros Hl Hle Hh. unfold fetch. rewrite Hl. cbn [mkfile f_fail f_len f_digest].
    change (0 =? 1) with false. change (0 =? 2) with false. cbv iota.
    assert ((limit <? len_of c) = false) as -> by lia.
    destruct Hh as [->| ->]; [reflexivity|]. rewrite N.eqb_refl. reflexivity.
  Qed.

  Variables (r : root) (e : edit) (dkeys : list N) (ch : list enode) (st ss sts : list sig).

  Let DOC := top_file_doc e dkeys ch st.
  Let SN := tree_snapshot len_of dig_of e DOC ch ss.
  Let TS := ed_timestamp len_of dig_of e SN sts.
  Let SRV := tree_files len_of dig_of (r_cs r) e DOC SN TS ch.

  Hypothesis ND : NoDup (map en_name (all_roles ch)).
  Hypothesis Hsmall : Forall (fun n => Forall (fun c => c < 256) (en_name n)) (all_roles ch).
  Hypothesis Hnotop : forall n, In n (all_roles ch) -> mem_bytes (en_name n) top_role_names = false.

  Let rfile (n : enode) : bytes := role_filename (r_cs r) (en_version n) (en_name n).

  Lemma small_role n : In n (all_roles ch) -> small (en_name n).
  Proof. intro H. rewrite Forall_forall in Hsmall. apply Hsmall, H. Qed.

  Lemma rfiles_nodup : NoDup (map rfile (all_roles ch)).
  Proof.
    eapply NoDup_map_from; [exact ND|]. intros x y Hx Hy E. unfold rfile in E.
    eapply role_filename_injective; [apply small_role, Hx|apply small_role, Hy|exact E].
  Qed.

  Lemma rfile_not_top n : In n (all_roles ch) ->
    rfile n <> versioned (r_cs r) (e_tv e) name_targets
    /\ rfile n <> versioned (r_cs r) (e_sv e) name_snapshot
    /\ rfile n <> name_timestamp.
  Proof.
    intro Hn. destruct (not_top_name _ (Hnotop n Hn)) as (_ & N1 & N2 & N3). pose proof (small_role n Hn) as Hs.
    unfold rfile. rewrite versioned_targets_role, versioned_snapshot_role. repeat split.
    - apply role_filename_distinct; [exact Hs|apply small_targets|exact N2].
    - apply role_filename_distinct; [exact Hs|apply small_snapshot|exact N1].
    - apply role_file_neq_timestamp; assumption.
  Qed.

  Lemma not_in_rfiles name : (forall n, In n (all_roles ch) -> rfile n <> name) ->
    ~ In name (map fst (map (fun n => (rfile n, Served (mkfile len_of dig_of (CTargets (en_file_doc n))))) (all_roles ch))).
  Proof.
    intros H Hin. rewrite map_map in Hin. cbn [fst] in Hin. apply in_map_iff in Hin as (n & E & Hn). exact (H n Hn E).
  Qed.

  (* the three top-level files *)
  Lemma srv_targets : lookup (versioned (r_cs r) (e_tv e) name_targets) SRV = Some (Served (mkfile len_of dig_of (CTargets DOC))).
  Proof.
    unfold SRV, tree_files. fold rfile. rewrite lookup_write_all_other.
    - cbn [lookup]. rewrite bytes_eqb_refl. reflexivity.
    - apply not_in_rfiles. intros n Hn. apply rfile_not_top, Hn.
  Qed.

  Lemma top_names_differ :
    bytes_eqb (versioned (r_cs r) (e_sv e) name_snapshot) (versioned (r_cs r) (e_tv e) name_targets) = false
    /\ bytes_eqb name_timestamp (versioned (r_cs r) (e_tv e) name_targets) = false
    /\ bytes_eqb name_timestamp (versioned (r_cs r) (e_sv e) name_snapshot) = false.
  Proof.
    repeat split; apply bytes_eqb_false.
    - apply versioned_neq; try discriminate; [apply lf_snapshot|apply lf_targets].
    - unfold versioned. destruct (r_cs r); [|discriminate].
      intro X. symmetry in X. revert X. apply digit_prefixed_neq_plain; [apply lf_timestamp|discriminate].
    - unfold versioned. destruct (r_cs r); [|discriminate].
      intro X. symmetry in X. revert X. apply digit_prefixed_neq_plain; [apply lf_timestamp|discriminate].
  Qed.

  Lemma srv_snapshot : lookup (versioned (r_cs r) (e_sv e) name_snapshot) SRV = Some (Served (mkfile len_of dig_of (CSnap SN))).
  Proof.
    destruct top_names_differ as (N12 & _ & _).
    unfold SRV, tree_files. fold rfile. rewrite lookup_write_all_other.
    - cbn [lookup]. rewrite N12, bytes_eqb_refl. reflexivity.
    - apply not_in_rfiles. intros n Hn. apply rfile_not_top, Hn.
  Qed.

  Lemma srv_timestamp : lookup name_timestamp SRV = Some (Served (mkfile len_of dig_of (CTs TS))).
  Proof.
    destruct top_names_differ as (_ & N31 & N32).
    unfold SRV, tree_files. fold rfile. rewrite lookup_write_all_other.
    - cbn [lookup]. rewrite N31, N32, bytes_eqb_refl. reflexivity.
    - apply not_in_rfiles. intros n Hn. apply rfile_not_top, Hn.
  Qed.

  (* the file of every delegated role *)
  Lemma srv_role n : In n (all_roles ch) ->
    lookup (rfile n) SRV = Some (Served (mkfile len_of dig_of (CTargets (en_file_doc n)))).
  Proof.
    intro Hn. unfold SRV, tree_files. fold rfile. apply lookup_write_all_in.
    - rewrite map_map. cbn [fst]. apply rfiles_nodup.
    - apply (in_map (fun n => (rfile n, Served (mkfile len_of dig_of (CTargets (en_file_doc n)))))), Hn.
  Qed.

  (* the snapshot *)
  Lemma json_names_nodup : NoDup (map (fun n => json_of (en_name n)) (all_roles ch)).
  Proof.
    eapply NoDup_map_from; [exact ND|]. intros x y _ _ E. apply json_of_inj, E.
  Qed.

  Lemma sn_role n : In n (all_roles ch) ->
    lookup (json_of (en_name n)) (sn_meta SN) = Some (meta_of len_of dig_of (en_version n) (CTargets (en_file_doc n))).
  Proof.
    intro Hn. unfold SN, tree_snapshot. cbn [sn_meta]. apply lookup_write_all_in.
    - rewrite map_map. cbn [fst]. apply json_names_nodup.
    - apply (in_map (fun n => (json_of (en_name n), meta_of len_of dig_of (en_version n) (CTargets (en_file_doc n))))), Hn.
  Qed.

  Lemma sn_targets : lookup name_targets (sn_meta SN) = Some (meta_of len_of dig_of (e_tv e) (CTargets DOC)).
  Proof.
    unfold SN, tree_snapshot. cbn [sn_meta]. rewrite lookup_write_all_other.
    - cbn [lookup]. rewrite bytes_eqb_refl. reflexivity.
    - intro Hin. rewrite map_map in Hin. cbn [fst] in Hin. apply in_map_iff in Hin as (n & E & Hn).
      destruct (not_top_name _ (Hnotop n Hn)) as (_ & _ & N2 & _). apply N2.
      change name_targets with (json_of name_targets_role) in E. apply json_of_inj, E.
  Qed.

  Lemma sn_only k m : lookup k (sn_meta SN) = Some m ->
    (k = name_targets /\ m = meta_of len_of dig_of (e_tv e) (CTargets DOC))
    \/ exists n, In n (all_roles ch) /\ k = json_of (en_name n)
                 /\ m = meta_of len_of dig_of (en_version n) (CTargets (en_file_doc n)).
  Proof.
    intro H. pose proof H as H0. unfold SN, tree_snapshot in H. cbn [sn_meta] in H. apply lookup_write_all_inv in H as [Hin|Hb].
    - right. rewrite map_map in Hin. cbn [fst] in Hin. apply in_map_iff in Hin as (n & E & Hn). exists n.
      split; [exact Hn|]. split; [symmetry; exact E|]. rewrite <- E, (sn_role n Hn) in H0. inversion H0. reflexivity.
    - left. cbn [lookup] in Hb. destruct (bytes_eqb k name_targets) eqn:E; [|discriminate].
      apply bytes_eqb_eq in E. inversion Hb. auto.
  Qed.

  Lemma role_listed n : In n (all_roles ch) -> listed len_of dig_of SRV SN (r_cs r) n.
  Proof.
    intro Hn. split; [apply sn_role, Hn|]. apply fetch_mkfile; [apply srv_role, Hn|lia|right; reflexivity].
  Qed.

  (* the next root file does not exist *)
  Lemma srv_no_next_root :
    (r_cs r = false -> ~ In (dec (r_version r + 1) ++ dot_root) (map en_name (all_roles ch))) ->
    lookup (root_json (r_version r + 1)) SRV = None.
  Proof.
    intro Hnr. unfold SRV, tree_files. fold rfile. rewrite lookup_write_all_other.
    - cbn [lookup].
      assert (bytes_eqb (root_json (r_version r + 1)) (versioned (r_cs r) (e_tv e) name_targets) = false) as ->.
      { apply bytes_eqb_false. apply root_json_neq_versioned; [apply lf_targets|discriminate|discriminate]. }
      assert (bytes_eqb (root_json (r_version r + 1)) (versioned (r_cs r) (e_sv e) name_snapshot) = false) as ->.
      { apply bytes_eqb_false. apply root_json_neq_versioned; [apply lf_snapshot|discriminate|discriminate]. }
      assert (bytes_eqb (root_json (r_version r + 1)) name_timestamp = false) as ->.
      { apply bytes_eqb_false. unfold root_json. apply digit_prefixed_neq_plain; [apply lf_timestamp|discriminate]. }
      reflexivity.
    - apply not_in_rfiles. intros n Hn. destruct (not_top_name _ (Hnotop n Hn)) as (N0 & _).
      apply role_file_neq_root_json; [apply small_role, Hn|exact N0|].
      intros Hcs E. apply (Hnr Hcs). rewrite <- E. apply in_map, Hn.
  Qed.
End Written.

(* ---------------------------------------------------------------------------------------- *)
(* the round trip *)
Lemma checked_all top l : forallb (role_checked top) l = true ->
  forall n, In n l ->
    mem_bytes (en_name n) top_role_names = false
    /\ exists dk sibs, parent_in (en_name n) top = Some (dk, sibs)
                       /\ deleg_verify fixed dk (hdrs_of sibs) (en_name n) (en_sigs n) = true.
Proof.
  intros H n Hn. rewrite forallb_forall in H. specialize (H n Hn). unfold role_checked in H.
  apply andb_true_iff in H as [H1 H2]. split; [destruct (mem_bytes (en_name n) top_role_names); [discriminate|reflexivity]|].
  destruct (parent_in (en_name n) top) as [[dk sibs]|]; [|discriminate]. eauto.
Qed.

Section RoundTripTree.
  Variable len_of : content -> N.
  Variable dig_of : content -> N.

  (* what ed_sign_tree returns, taken apart *)
  Lemma ed_sign_tree_inv r e dkeys ch keys tg sn ts srv :
    ed_sign_tree len_of dig_of r e dkeys ch keys = Some (tg, sn, ts, srv) ->
    exists st ss sts,
      signed_role r 2 keys = Some st /\ signed_role r 1 keys = Some ss /\ signed_role r 3 keys = Some sts
      /\ forallb (role_checked (top_node e dkeys ch)) (all_roles ch) = true
      /\ tg = top_loaded e dkeys ch st /\ validate tg = true
      /\ sn = tree_snapshot len_of dig_of e (top_file_doc e dkeys ch st) ch ss
      /\ ts = ed_timestamp len_of dig_of e sn sts
      /\ srv = tree_files len_of dig_of (r_cs r) e (top_file_doc e dkeys ch st) sn ts ch.
  Proof.
    intro Hs. unfold ed_sign_tree, ed_sign_tree_gen in Hs.
    destruct (signed_role r 2 keys) as [st|]; [|discriminate].
    destruct (signed_role r 1 keys) as [ss|]; [|discriminate].
    destruct (signed_role r 3 keys) as [sts|]; [|discriminate].
    destruct (negb true || nodup_bytes (map en_name (all_roles ch))); cbn [andb] in Hs; [|discriminate].
    destruct (forallb (role_checked (top_node e dkeys ch)) (all_roles ch)) eqn:Hchk; [|discriminate].
    destruct (validate (top_loaded e dkeys ch st)) eqn:Hval; [|discriminate].
    injection Hs as E1 E2 E3 E4. exists st, ss, sts. subst. repeat split; auto.
  Qed.

  Theorem editor_client_roundtrip_tree (r : root) (e : edit) (dkeys : list N) (ch : list enode) (keys : list N)
          (cfg : config) (now : Z) tg sn ts srv :
    ed_sign_tree len_of dig_of r e dkeys ch keys = Some (tg, sn, ts, srv) ->
    (* the root the client holds is the editor's root, and it verifies under itself *)
    root_verify r 0 (r_sigs r) = true ->
    (* the signing keys are distinct and present in the root's key table *)
    NoDup keys -> (forall k, In k keys -> memN k (r_keys r) = true) ->
    (* role names: pairwise distinct over the whole tree, made of bytes, and - when file names carry no
       version - none is "<root version + 1>.root" *)
    NoDup (map en_name (all_roles ch)) ->
    Forall (fun n => Forall (fun c => c < 256) (en_name n)) (all_roles ch) ->
    (r_cs r = false -> ~ In (dec (r_version r + 1) ++ [46; 114; 111; 111; 116]) (map en_name (all_roles ch))) ->
    (* client configuration: at least one root update allowed, fuel for the depth of the tree, the
       timestamp (the one file whose length nothing pins) fits its limit *)
    r_version r < update_limit fixed (r_version r) (c_max_root_updates cfg) ->
    (tree_depth ch <= c_fuel cfg)%nat ->
    len_of (CTs ts) <= c_max_timestamp_size cfg ->
    (* nothing is expired *)
    (now <= r_expires r)%Z -> (now <= e_tsexp e)%Z -> (now <= e_sexp e)%Z -> (now <= e_texp e)%Z ->
    exists w,
      run_cycle fixed {| cy_cfg := cfg; cy_shipped := CRoot r; cy_srv := srv; cy_now := now; cy_fault := None |} store0
      = (Ok {| rp_root := r; rp_ts := ts; rp_snap := sn; rp_targets := tg |}, w).
  Proof.
    intros Hs Vr Hnd Hkt NDn Hsm Hnr Hlim Hfuel Hlen Er Ets Esn Etg.
    destruct (ed_sign_tree_inv _ _ _ _ _ _ _ _ _ Hs) as (st & ss & sts & S2 & S1 & S3 & Hchk & Etg' & Hval & Esn' & Ets' & Esrv).
    pose proof (signed_role_verifies _ _ _ _ S2 Hnd Hkt) as V2.
    pose proof (signed_role_verifies _ _ _ _ S1 Hnd Hkt) as V1.
    pose proof (signed_role_verifies _ _ _ _ S3 Hnd Hkt) as V3.
    pose proof (checked_all _ _ Hchk) as Hall.
    assert (Hnotop : forall n, In n (all_roles ch) -> mem_bytes (en_name n) top_role_names = false)
      by (intros n Hn; apply (Hall n Hn)).
    set (DOC := top_file_doc e dkeys ch st) in *.
    pose proof (srv_targets len_of dig_of r e dkeys ch st ss sts Hsm Hnotop) as Ltg.
    pose proof (srv_snapshot len_of dig_of r e dkeys ch st ss sts Hsm Hnotop) as Lsn.
    pose proof (srv_timestamp len_of dig_of r e dkeys ch st ss sts Hsm Hnotop) as Lts.
    pose proof (sn_targets len_of dig_of e dkeys ch st ss Hnotop) as Mtg.
    pose proof (role_listed len_of dig_of r e dkeys ch st ss sts NDn Hsm Hnotop) as Hlisted.
    pose proof (srv_no_next_root len_of dig_of r e dkeys ch st ss sts Hsm Hnotop Hnr) as Lroot.
    fold DOC in Ltg, Lsn, Lts, Mtg, Hlisted, Lroot. rewrite <- Esn' in Ltg, Lsn, Lts, Mtg, Hlisted, Lroot.
    rewrite <- Ets' in Ltg, Lsn, Lts, Hlisted, Lroot. rewrite <- Esrv in Ltg, Lsn, Lts, Hlisted, Lroot.
    set (c := {| cy_cfg := cfg; cy_shipped := CRoot r; cy_srv := srv; cy_now := now; cy_fault := None |}).
    apply (cycle_live c store0 r ts sn DOC tg).
    - reflexivity.
    - reflexivity.
    - unfold final_root, c. cbn [cy_shipped cy_cfg cy_srv]. rewrite Vr.
      destruct (c_fuel cfg) as [|fuel] eqn:Ef; [unfold tree_depth in Hfuel; lia|].
      cbn [root_walk]. apply N.ltb_lt in Hlim. rewrite Hlim. unfold fetch. rewrite Lroot. reflexivity.
    - intros _. exact Er.
    - split; [|split; [|split]].
      + exists (mkfile len_of dig_of (CTs ts)). split; [|reflexivity].
        apply fetch_mkfile; [exact Lts|exact Hlen|left; reflexivity].
      + rewrite Ets'. exact V3.
      + intros old Ho. discriminate.
      + intros _. rewrite Ets'. exact Ets.
    - split; [|split; [|split]].
      + exists (meta_of len_of dig_of (e_sv e) (CSnap sn)), (mkfile len_of dig_of (CSnap sn)).
        split; [rewrite Ets'; cbn [ed_timestamp ts_meta lookup]; rewrite bytes_eqb_refl; reflexivity|].
        cbn [meta_of m_version m_length m_hash opt_default]. split.
        * apply fetch_mkfile; [exact Lsn|lia|right; reflexivity].
        * split; [reflexivity|]. rewrite Esn'. reflexivity.
      + rewrite Esn'. exact V1.
      + intros old Ho. discriminate.
      + intros _. rewrite Esn'. exact Esn.
    - split; [|split; [|split]].
      + exists (meta_of len_of dig_of (e_tv e) (CTargets DOC)), (mkfile len_of dig_of (CTargets DOC)).
        split; [exact Mtg|]. cbn [meta_of m_version m_length m_hash opt_default]. split.
        * apply fetch_mkfile; [exact Ltg|lia|right; reflexivity].
        * split; reflexivity.
      + exact V2.
      + intros old Ho. discriminate.
      + intros _. exact Etg.
    - right. split; [reflexivity|]. exists (loaded_roles ch). split; [rewrite Etg'; reflexivity|].
      set (top := top_node e dkeys ch) in *.
      change (tg_dkeys DOC) with (en_dkeys top). change (tg_roles DOC) with (hdrs_of (en_children top)).
      change (loaded_roles ch) with (loaded_roles (en_children top)).
      apply (build len_of dig_of cfg srv sn (r_cs r) top).
      + intros q Hq k Hk.
        assert (Hkin : In k (all_roles ch)) by (apply (child_in_flat top q k Hq Hk)).
        split; [|apply Hlisted, Hkin].
        destruct (Hall k Hkin) as (_ & dk & sibs & Hp & Hv).
        rewrite (parent_in_tree top q k NDn Hq Hk) in Hp. injection Hp as <- <-. exact Hv.
      + exact Hfuel.
      + exact NDn.
      + intros n Hn Hin. destruct (not_top_name _ (Hnotop n Hn)) as (N0 & N1 & N2 & N3).
        cbn [top_ancestors fixed fx_reserved_names In] in Hin. intuition congruence.
    - exact Hval.
  Qed.

  (* the snapshot and the timestamp describe the written files exactly, and nothing else *)
  Theorem tree_meta_exact (r : root) (e : edit) (dkeys : list N) (ch : list enode) (keys : list N) tg sn ts srv :
    ed_sign_tree len_of dig_of r e dkeys ch keys = Some (tg, sn, ts, srv) ->
    NoDup (map en_name (all_roles ch)) ->
    Forall (fun n => Forall (fun c => c < 256) (en_name n)) (all_roles ch) ->
    let doc := top_file_doc e dkeys ch (tg_sigs tg) in
    (* the top-level targets document: what was put in, with the tree attached *)
    tg = top_loaded e dkeys ch (tg_sigs tg)
    (* targets.json *)
    /\ lookup name_targets (sn_meta sn)
       = Some {| m_version := e_tv e; m_length := Some (len_of (CTargets doc)); m_hash := Some (dig_of (CTargets doc)) |}
    /\ lookup (versioned (r_cs r) (e_tv e) name_targets) srv = Some (Served (mkfile len_of dig_of (CTargets doc)))
    (* every delegated role: its snapshot entry gives version, length and digest of the file written for it *)
    /\ (forall n, In n (all_roles ch) ->
          lookup (json_of (en_name n)) (sn_meta sn)
          = Some {| m_version := en_version n; m_length := Some (len_of (CTargets (en_file_doc n)));
                    m_hash := Some (dig_of (CTargets (en_file_doc n))) |}
          /\ lookup (role_filename (r_cs r) (en_version n) (en_name n)) srv
             = Some (Served (mkfile len_of dig_of (CTargets (en_file_doc n)))))
    (* the snapshot lists nothing else *)
    /\ (forall k m, lookup k (sn_meta sn) = Some m ->
          k = name_targets \/ exists n, In n (all_roles ch) /\ k = json_of (en_name n))
    (* snapshot and timestamp *)
    /\ ts_meta ts = [(name_snapshot, {| m_version := sn_version sn; m_length := Some (len_of (CSnap sn));
                                       m_hash := Some (dig_of (CSnap sn)) |})]
    /\ lookup (versioned (r_cs r) (sn_version sn) name_snapshot) srv = Some (Served (mkfile len_of dig_of (CSnap sn)))
    /\ lookup name_timestamp srv = Some (Served (mkfile len_of dig_of (CTs ts)))
    /\ sn_version sn = e_sv e /\ ts_version ts = e_tsv e /\ sn_expires sn = e_sexp e /\ ts_expires ts = e_tsexp e.
  Proof.
    intros Hs NDn Hsm doc.
    destruct (ed_sign_tree_inv _ _ _ _ _ _ _ _ _ Hs) as (st & ss & sts & S2 & S1 & S3 & Hchk & Etg' & Hval & Esn' & Ets' & Esrv).
    pose proof (checked_all _ _ Hchk) as Hall.
    assert (Hnotop : forall n, In n (all_roles ch) -> mem_bytes (en_name n) top_role_names = false)
      by (intros n Hn; apply (Hall n Hn)).
    assert (Est : tg_sigs tg = st) by (rewrite Etg'; reflexivity). unfold doc. rewrite Est.
    pose proof (srv_targets len_of dig_of r e dkeys ch st ss sts Hsm Hnotop) as Ltg.
    pose proof (srv_snapshot len_of dig_of r e dkeys ch st ss sts Hsm Hnotop) as Lsn.
    pose proof (srv_timestamp len_of dig_of r e dkeys ch st ss sts Hsm Hnotop) as Lts.
    pose proof (sn_targets len_of dig_of e dkeys ch st ss Hnotop) as Mtg.
    pose proof (sn_role len_of dig_of e dkeys ch st ss NDn) as Mrole.
    pose proof (srv_role len_of dig_of r e dkeys ch st ss sts NDn Hsm) as Lrole.
    pose proof (sn_only len_of dig_of e dkeys ch st ss NDn) as Monly.
    rewrite <- Esn' in Ltg, Lsn, Lts, Mtg, Mrole, Lrole, Monly.
    rewrite <- Ets' in Ltg, Lsn, Lts, Lrole. rewrite <- Esrv in Ltg, Lsn, Lts, Lrole.
    assert (Esv : sn_version sn = e_sv e) by (rewrite Esn'; reflexivity).
    split; [exact Etg'|]. split; [exact Mtg|]. split; [exact Ltg|].
    split; [intros n Hn; split; [apply Mrole, Hn|apply Lrole, Hn]|].
    split.
    { intros k m Hk. destruct (Monly k m Hk) as [[-> _]|(n & Hn & -> & _)]; [left; reflexivity|right; eauto]. }
    split; [rewrite Ets', Esv; reflexivity|]. rewrite Esv. split; [exact Lsn|]. split; [exact Lts|].
    rewrite Ets', Esn'. repeat split.
  Qed.

  (* one level of the tree the client ends up with: headers, content and signatures of the delegated roles
     as they were put in, each with its own delegated roles attached in the same way *)
  Theorem loaded_roles_exact (ch : list enode) :
    Forall2 (fun hc n => fst hc = en_hdr n
                         /\ exists t, snd hc = Some t
                            /\ tg_version t = en_version n /\ tg_expires t = en_expires n
                            /\ tg_entries t = en_entries n /\ tg_has_deleg t = true /\ tg_dkeys t = en_dkeys n
                            /\ tg_sigs t = sign_with (dh_keyids (en_hdr n)) (en_signers n)
                            /\ tg_roles t = loaded_roles (en_children n))
            (loaded_roles ch) ch.
  Proof.
    unfold loaded_roles. rewrite <- (map_id ch) at 2. apply Forall2_map_same. intros n _. cbn [fst snd].
    split; [reflexivity|]. exists (en_loaded n). destruct n; cbn. repeat split.
  Qed.
End RoundTripTree.

Lemma delegated_sign_checked (len_of dig_of : content -> N) r e dkeys ch keys res :
  ed_sign_tree len_of dig_of r e dkeys ch keys = Some res ->
  forall n, In n (all_roles ch) ->
    mem_bytes (en_name n) top_role_names = false
    /\ exists dk sibs, parent_in (en_name n) (top_node e dkeys ch) = Some (dk, sibs)
                       /\ deleg_verify fixed dk (hdrs_of sibs) (en_name n) (en_sigs n) = true.
Proof.
  destruct res as [[[tg sn] ts] srv]. intro H.
  destruct (ed_sign_tree_inv _ _ _ _ _ _ _ _ _ _ _ H) as (st & ss & sts & _ & _ & _ & Hchk & _).
  exact (checked_all _ _ Hchk).
Qed.

(* ---------------------------------------------------------------------------------------- *)
(* a concrete repository: targets delegating to A (2 of keys 4,5,6; a/STAR) and B (2 of keys 7,8,9; b/STAR),
   A delegating to C (2 of keys 10,11,12; a/c/STAR); snapshot and targets signed 2 of 3 *)
Definition x_tn (b : bytes) : tname := {| tn_raw := b; tn_resolved := b; tn_hexdigest := [] |}.
Definition x_ti (l d : N) : tinfo := {| ti_len := l; ti_digest := d; ti_hex := [] |}.
Definition x_sig (k : N) : sig := {| s_claim := k; s_by := k; s_ok := true |}.
Definition x_root (cs : bool) : root :=
  {| r_version := 1; r_expires := 1000; r_cs := cs; r_keys := [1; 2; 3; 20; 21];
     r_roles := [(0, {| rk_keyids := [1]; rk_threshold := 1 |}); (1, {| rk_keyids := [1; 20; 21]; rk_threshold := 2 |});
                 (2, {| rk_keyids := [2; 20; 21]; rk_threshold := 2 |}); (3, {| rk_keyids := [3]; rk_threshold := 1 |})];
     r_sigs := [x_sig 1] |}.
Definition x_edit : edit :=
  {| e_entries := [(x_tn [116], x_ti 5 50)]; e_tv := 7; e_sv := 8; e_tsv := 9; e_texp := 900; e_sexp := 800; e_tsexp := 700 |}.
Definition x_hdr (name : bytes) (ks : list N) (thr : N) (p : bytes) : dhdr :=
  {| dh_name := name; dh_keyids := ks; dh_threshold := thr; dh_paths := Paths [p] |}.
Definition x_C : enode :=
  ENode (x_hdr [67] [10; 11; 12] 2 [97; 47; 99; 47; 42]) 1 300 [(x_tn [97; 47; 99; 47; 121], x_ti 3 30)] [] [] [10; 11; 12].
Definition x_A : enode :=
  ENode (x_hdr [65] [4; 5; 6] 2 [97; 47; 42]) 3 500 [(x_tn [97; 47; 120], x_ti 1 10)] [10; 11; 12] [x_C] [4; 6].
Definition x_B (signers : list N) : enode :=
  ENode (x_hdr [66] [7; 8; 9] 2 [98; 47; 42]) 2 400 [(x_tn [98; 47; 122], x_ti 2 20)] [] [] signers.
Definition x_cfg : config :=
  {| c_max_root_size := 1000; c_max_targets_size := 50; c_max_timestamp_size := 1000; c_max_snapshot_size := 50;
     c_max_root_updates := 10; c_enforce := true; c_fuel := 3 |}.
Definition x_len (c : content) : N :=
  match c with
  | CTargets t => 100 + tg_version t + 10 * N.of_nat (length (tg_entries t))
  | CSnap _ => 200
  | CTs _ => 300
  | _ => 0
  end.
Definition x_cyc (cs : bool) (srv : server) : cyc :=
  {| cy_cfg := x_cfg; cy_shipped := CRoot (x_root cs); cy_srv := srv; cy_now := 100; cy_fault := None |}.

Ltac small_names := repeat (constructor; [repeat (constructor; [reflexivity|]); constructor|]); constructor.
Ltac nodup_names := repeat (constructor; [cbn; intuition discriminate|]); constructor.

Lemma tree_example : forall cs,
  exists tg sn ts srv w,
    ed_sign_tree x_len x_len (x_root cs) x_edit [4; 5; 6; 7; 8; 9] [x_A; x_B [9; 8; 2]] [1; 2; 3; 20] = Some (tg, sn, ts, srv)
    /\ run_cycle fixed (x_cyc cs srv) store0 = (Ok {| rp_root := x_root cs; rp_ts := ts; rp_snap := sn; rp_targets := tg |}, w)
    /\ map (fun ni => tn_raw (fst ni)) (targets_iter tg) = [[116]; [97; 47; 120]; [97; 47; 99; 47; 121]; [98; 47; 122]]
    /\ map fst (sn_meta sn) = [name_targets; [65; 46; 106; 115; 111; 110]; [67; 46; 106; 115; 111; 110]; [66; 46; 106; 115; 111; 110]]
    (* with one of B's two signatures missing the editor refuses *)
    /\ ed_sign_tree x_len x_len (x_root cs) x_edit [4; 5; 6; 7; 8; 9] [x_A; x_B [9; 2]] [1; 2; 3; 20] = None.
Proof.
  intro cs.
  destruct (ed_sign_tree x_len x_len (x_root cs) x_edit [4; 5; 6; 7; 8; 9] [x_A; x_B [9; 8; 2]] [1; 2; 3; 20])
    as [[[[tg sn] ts] srv]|] eqn:E; [|destruct cs; vm_compute in E; discriminate].
  destruct (editor_client_roundtrip_tree x_len x_len (x_root cs) x_edit [4; 5; 6; 7; 8; 9] [x_A; x_B [9; 8; 2]] [1; 2; 3; 20]
              x_cfg 100 tg sn ts srv E) as [w Hw].
  - reflexivity.
  - repeat (constructor; [cbn; intuition discriminate|]). constructor.
  - intros k Hk. cbn in Hk. intuition (subst; reflexivity).
  - nodup_names.
  - small_names.
  - destruct cs; [discriminate|]. intros _. cbn. intuition discriminate.
  - reflexivity.
  - vm_compute. lia.
  - destruct cs; vm_compute in E; injection E as <- <- <- <-; vm_compute; discriminate.
  - vm_compute; discriminate.
  - vm_compute; discriminate.
  - vm_compute; discriminate.
  - vm_compute; discriminate.
  - exists tg, sn, ts, srv, w. split; [reflexivity|]. split; [exact Hw|].
    destruct cs; vm_compute in E; injection E as <- <- <- <-; repeat split; vm_compute; reflexivity.
Qed.

(* ---------------------------------------------------------------------------------------- *)
(* the two side conditions on role names cannot be dropped *)

(* two roles of one name in different branches: A (key 4; a/STAR) delegates to B (key 7; a/b/STAR; one target),
   and targets delegates to another B (key 7; b/STAR; empty). Targets::parent_of finds A's delegations for
   both, the second B.json replaces the first, the snapshot has one entry B.json: sign and write
   succeed, the client loads the repository and the target of the first B is gone. *)
Definition dup_B2 : enode := ENode (x_hdr [66] [7] 1 [97; 47; 98; 47; 42]) 1 300 [(x_tn [97; 47; 98; 47; 121], x_ti 3 30)] [] [] [7].
Definition dup_A : enode := ENode (x_hdr [65] [4] 1 [97; 47; 42]) 3 500 [] [7] [dup_B2] [4].
Definition dup_B1 : enode := ENode (x_hdr [66] [7] 1 [98; 47; 42]) 1 400 [] [] [] [7].

Lemma distinct_names_needed : forall cs,
  exists tg sn ts srv w rp,
    ed_sign_tree_gen x_len x_len false (x_root cs) x_edit [4; 7] [dup_A; dup_B1] [1; 2; 3; 20] = Some (tg, sn, ts, srv)
    /\ root_verify (x_root cs) 0 (r_sigs (x_root cs)) = true
    /\ NoDup [1; 2; 3; 20] /\ (forall k, In k [1; 2; 3; 20] -> memN k (r_keys (x_root cs)) = true)
    /\ Forall (fun n => Forall (fun c => c < 256) (en_name n)) (all_roles [dup_A; dup_B1])
    /\ (r_cs (x_root cs) = false ->
        ~ In (dec (r_version (x_root cs) + 1) ++ [46; 114; 111; 111; 116]) (map en_name (all_roles [dup_A; dup_B1])))
    /\ r_version (x_root cs) < update_limit fixed (r_version (x_root cs)) (c_max_root_updates x_cfg)
    /\ (tree_depth [dup_A; dup_B1] <= c_fuel x_cfg)%nat
    /\ x_len (CTs ts) <= c_max_timestamp_size x_cfg
    /\ (100 <= r_expires (x_root cs))%Z /\ (100 <= e_tsexp x_edit)%Z /\ (100 <= e_sexp x_edit)%Z /\ (100 <= e_texp x_edit)%Z
    (* ... every premise of the round trip but the distinctness of role names ... *)
    /\ ~ NoDup (map en_name (all_roles [dup_A; dup_B1]))
    /\ run_cycle fixed (x_cyc cs srv) store0 = (Ok rp, w)
    /\ map (fun ni => tn_raw (fst ni)) (targets_iter tg) = [[116]; [97; 47; 98; 47; 121]]
    /\ map (fun ni => tn_raw (fst ni)) (targets_iter (rp_targets rp)) = [[116]].
Proof.
  intro cs.
  destruct (ed_sign_tree_gen x_len x_len false (x_root cs) x_edit [4; 7] [dup_A; dup_B1] [1; 2; 3; 20])
    as [[[[tg sn] ts] srv]|] eqn:E; [|destruct cs; vm_compute in E; discriminate].
  destruct (run_cycle fixed (x_cyc cs srv) store0) as [[rp|c a] w] eqn:R;
    [|destruct cs; vm_compute in E; injection E as <- <- <- <-; vm_compute in R; discriminate].
  exists tg, sn, ts, srv, w, rp. split; [reflexivity|]. split; [reflexivity|].
  split; [repeat (constructor; [cbn; intuition discriminate|]); constructor|].
  split; [intros k Hk; cbn in Hk; intuition (subst; reflexivity)|].
  split; [small_names|].
  split; [destruct cs; [discriminate|]; intros _; cbn; intuition discriminate|].
  split; [reflexivity|]. split; [vm_compute; lia|].
  split; [destruct cs; vm_compute in E; injection E as <- <- <- <-; vm_compute; discriminate|].
  do 4 (split; [vm_compute; discriminate|]).
  split.
  { cbn. intro ND. inversion ND as [|? ? _ ND1]; subst. inversion ND1 as [|? ? Hn _]; subst. apply Hn. left. reflexivity. }
  split; [exact R|].
  destruct cs; vm_compute in E; injection E as <- <- <- <-; vm_compute in R; injection R as <- <-; split; reflexivity.
Qed.

(* file names without version prefix, root version 1, and a delegated role named 2.root: its file is
   what the client gets when it asks for the next root *)
Definition nr_role : enode := ENode (x_hdr [50; 46; 114; 111; 111; 116] [7] 1 [98; 47; 42]) 1 400 [] [] [] [7].

Lemma next_root_name_needed :
  exists tg sn ts srv w,
    ed_sign_tree x_len x_len (x_root false) x_edit [7] [nr_role] [1; 2; 3; 20] = Some (tg, sn, ts, srv)
    /\ root_verify (x_root false) 0 (r_sigs (x_root false)) = true
    /\ NoDup [1; 2; 3; 20] /\ (forall k, In k [1; 2; 3; 20] -> memN k (r_keys (x_root false)) = true)
    /\ NoDup (map en_name (all_roles [nr_role]))
    /\ Forall (fun n => Forall (fun c => c < 256) (en_name n)) (all_roles [nr_role])
    /\ r_version (x_root false) < update_limit fixed (r_version (x_root false)) (c_max_root_updates x_cfg)
    /\ (tree_depth [nr_role] <= c_fuel x_cfg)%nat
    /\ x_len (CTs ts) <= c_max_timestamp_size x_cfg
    /\ (100 <= r_expires (x_root false))%Z /\ (100 <= e_tsexp x_edit)%Z /\ (100 <= e_sexp x_edit)%Z /\ (100 <= e_texp x_edit)%Z
    (* ... every premise of the round trip but the one about <root version + 1>.root ... *)
    /\ In (dec (r_version (x_root false) + 1) ++ [46; 114; 111; 111; 116]) (map en_name (all_roles [nr_role]))
    /\ run_cycle fixed (x_cyc false srv) store0 = (Err E_Parse 0, w).
Proof.
  destruct (ed_sign_tree x_len x_len (x_root false) x_edit [7] [nr_role] [1; 2; 3; 20])
    as [[[[tg sn] ts] srv]|] eqn:E; [|vm_compute in E; discriminate].
  destruct (run_cycle fixed (x_cyc false srv) store0) as [res w] eqn:R.
  exists tg, sn, ts, srv, w. split; [reflexivity|]. split; [reflexivity|].
  split; [repeat (constructor; [cbn; intuition discriminate|]); constructor|].
  split; [intros k Hk; cbn in Hk; intuition (subst; reflexivity)|].
  split; [nodup_names|]. split; [small_names|]. split; [reflexivity|]. split; [vm_compute; lia|].
  split; [vm_compute in E; injection E as <- <- <- <-; vm_compute; discriminate|].
  do 4 (split; [vm_compute; discriminate|]).
  split; [left; reflexivity|].
  vm_compute in E; injection E as <- <- <- <-. vm_compute in R. injection R as <- <-. reflexivity.
Qed.

(* after the repair of F19 a successful sign implies that the delegated roles have pairwise distinct names,
   and the tree of the witness above is refused *)
Lemma nodup_bytes_NoDup l : nodup_bytes l = true -> NoDup l.
Proof.
  induction l as [|x l IH]; cbn [nodup_bytes]; intro H; [constructor|].
  apply andb_true_iff in H as [H1 H2]. constructor; [|apply IH, H2].
  intro Hin. apply LivenessP.mem_bytes_In in Hin. rewrite Hin in H1. discriminate.
Qed.

Lemma ed_sign_tree_names len_of dig_of r e dkeys ch keys res :
  ed_sign_tree len_of dig_of r e dkeys ch keys = Some res -> NoDup (map en_name (all_roles ch)).
Proof.
  unfold ed_sign_tree, ed_sign_tree_gen. intro H.
  destruct (signed_role r 2 keys); [|discriminate]. destruct (signed_role r 1 keys); [|discriminate].
  destruct (signed_role r 3 keys); [|discriminate]. cbn [negb orb] in H.
  destruct (nodup_bytes (map en_name (all_roles ch))) eqn:E; [|discriminate]. apply nodup_bytes_NoDup, E.
Qed.

Lemma duplicate_names_refused : forall cs,
  ed_sign_tree x_len x_len (x_root cs) x_edit [4; 7] [dup_A; dup_B1] [1; 2; 3; 20] = None.
Proof. intros [|]; vm_compute; reflexivity. Qed.
