(* The canonical form determines the value: canonical texts are self-delimiting (no canonical text
   followed by a delimiter is a proper prefix of another), so equal canonical forms of two objects
   mean equal sorted member tables, member by member. Used by C12 (what is signed determines what is
   used; role tags cannot collide). nfc is the identity throughout (ASCII documents). *)
From ToughV Require Import Model.Base Model.Json Model.CJson Proofs.BaseP Proofs.CJsonP.
From Coq Require Import ZifyBool ZifyN ZifyNat Permutation Sorted.

Notation cs := (canon_spec (fun s => s)).
Notation sitems := (spec_items (fun s => s)).
Notation smembers := (spec_members (fun s => s)).

(* ---------------------------------------------------------------------------------------- *)
(* first bytes *)
Definition hd_kind (c : byte) : nat :=
  if c =? 110 then 0 else if c =? 116 then 1 else if c =? 102 then 2
  else if is_digit c || (c =? 45) then 3 else if c =? 34 then 4 else if c =? 91 then 5
  else if c =? 123 then 6 else 7.

Definition jkind (v : jv) : nat :=
  match v with
  | JNull => 0 | JBool true => 1 | JBool false => 2 | JInt _ => 3 | JFloat => 8
  | JStr _ => 4 | JArr _ => 5 | JObj _ => 6
  end.

Lemma hd_kind_digit c : is_digit c = true -> hd_kind c = 3%nat.
Proof.
  unfold hd_kind, is_digit. intro H.
  destruct (c =? 110) eqn:E1; [lia|]. destruct (c =? 116) eqn:E2; [lia|].
  destruct (c =? 102) eqn:E3; [lia|]. rewrite H. reflexivity.
Qed.

Lemma dec_z_head z : exists c t, dec_z z = c :: t /\ hd_kind c = 3%nat.
Proof.
  destruct z as [|p|p]; cbn [dec_z].
  - exists 48, []. split; reflexivity.
  - pose proof (dec_digits (Npos p)) as D. pose proof (dec_nonempty (Npos p)) as NE.
    destruct (dec (Npos p)) as [|c t]; [contradiction|]. exists c, t. split; [reflexivity|].
    inversion D; subst. apply hd_kind_digit. assumption.
  - exists 45, (dec (Npos p)). split; reflexivity.
Qed.

Lemma cs_head v b : cs v = Some b -> exists c t, b = c :: t /\ hd_kind c = jkind v.
Proof.
  destruct v as [| [|] | z | | s | l | m]; intro H.
  - inversion H. eexists _, _. split; reflexivity.
  - inversion H. eexists _, _. split; reflexivity.
  - inversion H. eexists _, _. split; reflexivity.
  - cbn [canon_spec] in H. inversion H; subst. destruct (dec_z_head z) as (c & t & E & K).
    exists c, t. split; assumption.
  - discriminate.
  - cbn [canon_spec] in H. inversion H. unfold quote. cbn [app]. eexists _, _. split; reflexivity.
  - rewrite spec_arr in H. destruct (sitems true l); [|discriminate]. inversion H.
    cbn [app]. eexists _, _. split; reflexivity.
  - rewrite spec_obj in H. destruct (smembers m); [|discriminate]. inversion H.
    cbn [app]. eexists _, _. split; reflexivity.
Qed.

(* ---------------------------------------------------------------------------------------- *)
(* what may follow a value inside a canonical text *)
Definition delim (r : bytes) : Prop :=
  match r with [] => True | c :: _ => c = 44 \/ c = 93 \/ c = 125 end.

Definition nodigit_head (r : bytes) : Prop :=
  match r with [] => True | c :: _ => is_digit c = false end.

Lemma delim_nodigit r : delim r -> nodigit_head r.
Proof. destruct r as [|c r]; [trivial|]. cbn. unfold is_digit. intros [H|[H|H]]; subst; reflexivity. Qed.

Lemma digits_prefix a : forall b r1 r2,
  Forall (fun c => is_digit c = true) a -> Forall (fun c => is_digit c = true) b ->
  a ++ r1 = b ++ r2 -> nodigit_head r1 -> nodigit_head r2 -> a = b /\ r1 = r2.
Proof.
  induction a as [|x a IH]; intros [|y b] r1 r2 Ha Hb E N1 N2; cbn [app] in E.
  - split; [reflexivity|exact E].
  - subst r1. cbn in N1. inversion Hb; subst. congruence.
  - subst r2. cbn in N2. inversion Ha; subst. congruence.
  - inversion E; subst. inversion Ha; inversion Hb; subst.
    destruct (IH b r1 r2) as [E1 E2]; try assumption. subst. split; reflexivity.
Qed.

Lemma dec_0 : dec 0 = [48].
Proof. reflexivity. Qed.

Lemma dec_z_prefix z1 z2 r1 r2 :
  dec_z z1 ++ r1 = dec_z z2 ++ r2 -> nodigit_head r1 -> nodigit_head r2 -> z1 = z2 /\ r1 = r2.
Proof.
  assert (D0 : Forall (fun c => is_digit c = true) [48]) by (constructor; [reflexivity|constructor]).
  assert (NM : forall p t, dec (Npos p) <> 45 :: t).
  { intros p t E. pose proof (dec_digits (Npos p)) as D. rewrite E in D. inversion D; subst. discriminate. }
  intros E N1 N2. destruct z1 as [|p|p], z2 as [|q|q]; cbn [dec_z] in E.
  - cbn [app] in E. inversion E. split; reflexivity.
  - destruct (digits_prefix _ _ _ _ D0 (dec_digits (Npos q)) E N1 N2) as [E1 E2].
    rewrite <- dec_0 in E1. apply dec_inj in E1. discriminate.
  - cbn [app] in E. inversion E.
  - destruct (digits_prefix _ _ _ _ (dec_digits (Npos p)) D0 E N1 N2) as [E1 E2].
    rewrite <- dec_0 in E1. apply dec_inj in E1. discriminate.
  - destruct (digits_prefix _ _ _ _ (dec_digits (Npos p)) (dec_digits (Npos q)) E N1 N2) as [E1 E2].
    apply dec_inj in E1. inversion E1. subst. split; reflexivity.
  - exfalso. destruct (dec (Npos p)) as [|c t] eqn:Ed; [apply (dec_nonempty (Npos p)), Ed|].
    cbn [app] in E. inversion E; subst. apply (NM p t Ed).
  - cbn [app] in E. inversion E.
  - exfalso. destruct (dec (Npos q)) as [|c t] eqn:Ed; [apply (dec_nonempty (Npos q)), Ed|].
    cbn [app] in E. inversion E; subst. apply (NM q t Ed).
  - cbn [app] in E. inversion E as [E'].
    destruct (digits_prefix _ _ _ _ (dec_digits (Npos p)) (dec_digits (Npos q)) E' N1 N2) as [E1 E2].
    apply dec_inj in E1. inversion E1. subst. split; reflexivity.
Qed.

(* strings: the closing quote is the first unescaped one *)
Lemma esc_prefix s1 : forall s2 r1 r2,
  esc s1 ++ 34 :: r1 = esc s2 ++ 34 :: r2 -> s1 = s2 /\ r1 = r2.
Proof.
  induction s1 as [|c1 s1 IH]; intros [|c2 s2] r1 r2 E; cbn [esc app] in E.
  - inversion E. split; reflexivity.
  - exfalso. unfold esc_byte in E. destruct ((c2 =? 34) || (c2 =? 92)) eqn:X; cbn [app] in E.
    + inversion E.
    + inversion E; subst. cbn in X. discriminate.
  - exfalso. unfold esc_byte in E. destruct ((c1 =? 34) || (c1 =? 92)) eqn:X; cbn [app] in E.
    + inversion E.
    + inversion E; subst. cbn in X. discriminate.
  - unfold esc_byte in E.
    destruct ((c1 =? 34) || (c1 =? 92)) eqn:X1, ((c2 =? 34) || (c2 =? 92)) eqn:X2;
      cbn [app] in E; rewrite <- ?app_assoc in E; cbn [app] in E.
    + inversion E as [[Ec E']]. subst. destruct (IH _ _ _ E'). subst. split; reflexivity.
    + exfalso. inversion E; subst. rewrite orb_true_r in X2. discriminate.
    + exfalso. inversion E; subst. rewrite orb_true_r in X1. discriminate.
    + inversion E as [[Ec E']]. subst. destruct (IH _ _ _ E'). subst. split; reflexivity.
Qed.

Lemma quote_prefix s1 s2 r1 r2 : quote s1 ++ r1 = quote s2 ++ r2 -> s1 = s2 /\ r1 = r2.
Proof.
  unfold quote. cbn [app]. rewrite <- !app_assoc. cbn [app]. intro E. inversion E as [E'].
  apply esc_prefix in E'. exact E'.
Qed.

Lemma quote_inj s1 s2 : quote s1 = quote s2 -> s1 = s2.
Proof.
  intro E. destruct (quote_prefix s1 s2 [] []) as [H _]; [rewrite !app_nil_r; exact E|exact H].
Qed.

(* ---------------------------------------------------------------------------------------- *)
(* self-delimiting canonical texts *)
Definition pf (b : bytes) : Prop := forall v2 b2 r1 r2,
  cs v2 = Some b2 -> b ++ r1 = b2 ++ r2 -> delim r1 -> delim r2 -> b = b2 /\ r1 = r2.

Lemma hd_kind_close : hd_kind 93 = 7%nat /\ hd_kind 125 = 7%nat /\ hd_kind 44 = 7%nat.
Proof. repeat split; reflexivity. Qed.

Lemma jkind_lt7 v b : cs v = Some b -> jkind v <> 7%nat.
Proof. destruct v as [| [|] | | | | |]; cbn; intros; discriminate. Qed.

Lemma sitems_tail_delim t rest r : sitems false t = Some rest -> delim (rest ++ 93 :: r).
Proof.
  destruct t as [|x t]; cbn [spec_items]; intro H.
  - inversion H. cbn. auto.
  - destruct (cs x); [|discriminate]. destruct (sitems false t); [|discriminate]. inversion H.
    cbn. auto.
Qed.

Lemma items_pf l1 : Forall (fun x => forall b, cs x = Some b -> pf b) l1 ->
  forall first l2 body1 body2 r1 r2,
    sitems first l1 = Some body1 -> sitems first l2 = Some body2 ->
    body1 ++ 93 :: r1 = body2 ++ 93 :: r2 -> body1 = body2 /\ r1 = r2.
Proof.
  induction 1 as [|x l1 Hx Hl IH]; intros first [|y l2] body1 body2 r1 r2 S1 S2 E;
    cbn [spec_items] in S1, S2.
  - inversion S1; inversion S2; subst. cbn [app] in E. inversion E. split; reflexivity.
  - exfalso. inversion S1; subst. cbn [app] in E.
    destruct (cs y) as [by_|] eqn:Cy; [|discriminate]. destruct (sitems false l2); [|discriminate].
    inversion S2; subst. destruct (cs_head _ _ Cy) as (c & t & Eb & K). subst by_.
    destruct first; cbn [app] in E; inversion E; subst.
    pose proof (jkind_lt7 _ _ Cy). cbn in K. congruence.
  - exfalso. inversion S2; subst. cbn [app] in E.
    destruct (cs x) as [bx|] eqn:Cx; [|discriminate]. destruct (sitems false l1); [|discriminate].
    inversion S1; subst. destruct (cs_head _ _ Cx) as (c & t & Eb & K). subst bx.
    destruct first; cbn [app] in E; inversion E; subst.
    pose proof (jkind_lt7 _ _ Cx). cbn in K. congruence.
  - destruct (cs x) as [bx|] eqn:Cx; [|discriminate].
    destruct (sitems false l1) as [t1|] eqn:T1; [|discriminate].
    destruct (cs y) as [by_|] eqn:Cy; [|discriminate].
    destruct (sitems false l2) as [t2|] eqn:T2; [|discriminate].
    inversion S1; inversion S2; subst. clear S1 S2.
    assert (E' : bx ++ (t1 ++ 93 :: r1) = by_ ++ (t2 ++ 93 :: r2)).
    { destruct first; cbn [app] in E; rewrite <- ?app_assoc in E; [exact E|].
      inversion E. reflexivity. }
    destruct (Hx _ eq_refl _ _ _ _ Cy E' (sitems_tail_delim _ _ _ T1) (sitems_tail_delim _ _ _ T2)) as [Eb Et].
    subst by_. destruct (IH false l2 t1 t2 r1 r2 T1 T2 Et) as [E1 E2]. subst. split; reflexivity.
Qed.

Lemma pmembers_tail_delim S r : delim (print_spec_members false S ++ 125 :: r).
Proof. destruct S as [|[k v] S]; cbn; auto. Qed.

Lemma members_pf S1 : Forall (fun e => pf (snd e)) S1 ->
  forall first S2 r1 r2,
    Forall (fun e => exists x, cs x = Some (snd e)) S2 ->
    print_spec_members first S1 ++ 125 :: r1 = print_spec_members first S2 ++ 125 :: r2 ->
    S1 = S2 /\ r1 = r2.
Proof.
  induction 1 as [|[k1 v1] S1 Hv Hs IH]; intros first [|[k2 v2] S2] r1 r2 F2 E;
    cbn [print_spec_members] in E.
  - cbn [app] in E. inversion E. split; reflexivity.
  - exfalso. unfold quote in E. destruct first; cbn [app] in E; inversion E.
  - exfalso. unfold quote in E. destruct first; cbn [app] in E; inversion E.
  - assert (E' : quote k1 ++ (58 :: v1 ++ print_spec_members false S1 ++ 125 :: r1)
                 = quote k2 ++ (58 :: v2 ++ print_spec_members false S2 ++ 125 :: r2)).
    { destruct first; cbn [app] in E; rewrite <- ?app_assoc in E; cbn [app] in E;
        rewrite <- ?app_assoc in E; [exact E|]. injection E as E0. unfold quote. cbn [app]. f_equal. exact E0. }
    apply quote_prefix in E' as [Ek E'']. subst k2. inversion E'' as [E3].
    inversion F2 as [|? ? [x Hx] F2']; subst. cbn [snd] in *.
    destruct (Hv x v2 _ _ Hx E3 (pmembers_tail_delim _ _) (pmembers_tail_delim _ _)) as [Ev Et].
    subst v2. destruct (IH false S2 r1 r2 F2' Et) as [E1 E2]. subst. split; reflexivity.
Qed.

Lemma In_bt_insert {V} k (v : V) m e : In e (bt_insert k v m) -> e = (k, v) \/ In e m.
Proof.
  induction m as [|[k' v'] m IH]; cbn [bt_insert]; intro H.
  - destruct H as [H|[]]. left. symmetry. exact H.
  - destruct (lex_ltb k k').
    + destruct H as [H|H]; [left; symmetry; exact H|right; exact H].
    + destruct (bytes_eqb k k').
      * destruct H as [H|H]; [left; symmetry; exact H|right; right; exact H].
      * destruct H as [H|H]; [right; left; exact H|].
        destruct (IH H) as [H'|H']; [left; exact H'|right; right; exact H'].
Qed.

Lemma In_sort_members {V} (es : list (bytes * V)) e : In e (sort_members es) -> In e es.
Proof.
  unfold sort_members. assert (G : forall acc, In e (fold_left (fun a kv => bt_insert (fst kv) (snd kv) a) es acc)
                                             -> In e acc \/ In e es).
  { induction es as [|[k v] es IH]; intros acc H; cbn [fold_left] in H; [left; exact H|].
    destruct (IH _ H) as [H'|H'].
    - cbn [fst snd] in H'. apply In_bt_insert in H' as [H'|H']; [right; left; symmetry; exact H'|left; exact H'].
    - right. right. exact H'. }
  intro H. destruct (G [] H) as [[]|H']. exact H'.
Qed.

Lemma smembers_In m es e : smembers m = Some es -> In e es ->
  exists x, In (fst e, x) m /\ cs x = Some (snd e).
Proof.
  revert es; induction m as [|[k x] m IH]; intros es H Hin; cbn [spec_members] in H.
  - inversion H; subst. contradiction.
  - destruct (cs x) as [b|] eqn:Cx; [|discriminate]. destruct (smembers m) as [r|]; [|discriminate].
    inversion H; subst. destruct Hin as [Hin|Hin].
    + subst e. exists x. split; [left; reflexivity|exact Cx].
    + destruct (IH _ eq_refl Hin) as (y & Hy & Cy). exists y. split; [right; exact Hy|exact Cy].
Qed.

Theorem cs_pf v : forall b, cs v = Some b -> pf b.
Proof.
  induction v as [| bb | z | | s | l IHl | m IHm] using jv_ind2; intros b Hb v2 b2 r1 r2 H2 E D1 D2;
    destruct (cs_head _ _ Hb) as (c1 & t1 & Eb1 & K1); destruct (cs_head _ _ H2) as (c2 & t2 & Eb2 & K2);
    assert (Ek : hd_kind c1 = hd_kind c2)
      by (subst b b2; cbn [app] in E; inversion E; reflexivity);
    rewrite K1, K2 in Ek; clear K1 K2 Eb1 Eb2 c1 c2 t1 t2.
  - destruct v2 as [| [|] | | | | |]; try discriminate. inversion Hb; inversion H2; subst.
    cbn [app] in E. inversion E. split; reflexivity.
  - destruct bb, v2 as [| [|] | | | | |]; try discriminate; inversion Hb; inversion H2; subst;
      cbn [app] in E; inversion E; split; reflexivity.
  - destruct v2 as [| [|] | z2 | | | |]; try discriminate. cbn [canon_spec] in Hb, H2.
    inversion Hb; inversion H2; subst.
    destruct (dec_z_prefix _ _ _ _ E (delim_nodigit _ D1) (delim_nodigit _ D2)). subst. split; reflexivity.
  - discriminate.
  - destruct v2 as [| [|] | | | s2 | |]; try discriminate. cbn [canon_spec] in Hb, H2.
    inversion Hb; inversion H2; subst. apply quote_prefix in E as [E1 E2]. subst. split; reflexivity.
  - destruct v2 as [| [|] | | | | l2 |]; try discriminate. rewrite spec_arr in Hb, H2.
    destruct (sitems true l) as [body1|] eqn:S1; [|discriminate].
    destruct (sitems true l2) as [body2|] eqn:S2; [|discriminate].
    inversion Hb; inversion H2; subst. cbn [app] in E. rewrite <- !app_assoc in E. cbn [app] in E.
    inversion E as [E'].
    destruct (items_pf l IHl true l2 body1 body2 r1 r2 S1 S2 E') as [E1 E2]. subst. split; reflexivity.
  - destruct v2 as [| [|] | | | | | m2]; try discriminate. rewrite spec_obj in Hb, H2.
    destruct (smembers m) as [es1|] eqn:S1; [|discriminate].
    destruct (smembers m2) as [es2|] eqn:S2; [|discriminate].
    inversion Hb; inversion H2; subst. cbn [app] in E. rewrite <- !app_assoc in E. cbn [app] in E.
    inversion E as [E'].
    assert (F1 : Forall (fun e => pf (snd e)) (sort_members es1)).
    { apply Forall_forall. intros e He. apply In_sort_members in He.
      destruct (smembers_In _ _ _ S1 He) as (x & Hx & Cx).
      rewrite Forall_forall in IHm. exact (IHm _ Hx _ Cx). }
    assert (F2 : Forall (fun e => exists x, cs x = Some (snd e)) (sort_members es2)).
    { apply Forall_forall. intros e He. apply In_sort_members in He.
      destruct (smembers_In _ _ _ S2 He) as (x & Hx & Cx). exists x. exact Cx. }
    destruct (members_pf _ F1 true _ r1 r2 F2 E') as [E1 E2]. rewrite E1. subst. split; reflexivity.
Qed.

(* equal canonical forms of two objects: the same sorted table of (key, canonical value) *)
Theorem cs_obj_entries_inj m1 m2 es1 es2 b :
  cs (JObj m1) = Some b -> cs (JObj m2) = Some b ->
  smembers m1 = Some es1 -> smembers m2 = Some es2 -> sort_members es1 = sort_members es2.
Proof.
  intros H1 H2 S1 S2. pose proof H1 as H1'. rewrite spec_obj, S1 in H1. rewrite spec_obj, S2 in H2.
  inversion H1 as [E1]. inversion H2 as [E2]. rewrite <- E2 in E1. cbn [app] in E1. inversion E1 as [E].
  assert (F1 : Forall (fun e => pf (snd e)) (sort_members es1)).
  { apply Forall_forall. intros e He. apply In_sort_members in He.
    destruct (smembers_In _ _ _ S1 He) as (x & Hx & Cx). exact (cs_pf x _ Cx). }
  assert (F2 : Forall (fun e => exists x, cs x = Some (snd e)) (sort_members es2)).
  { apply Forall_forall. intros e He. apply In_sort_members in He.
    destruct (smembers_In _ _ _ S2 He) as (x & Hx & Cx). exists x. exact Cx. }
  destruct (members_pf _ F1 true _ [] [] F2 E) as [E' _]. exact E'.
Qed.

(* ---------------------------------------------------------------------------------------- *)
(* looking a key up in the sorted table gives the last member of that name *)
Lemma find_assoc_bt_insert {V} k k' (v' : V) m :
  find_assoc k (bt_insert k' v' m) = if bytes_eqb k k' then Some v' else find_assoc k m.
Proof.
  induction m as [|[k0 v0] m IH]; cbn [bt_insert find_assoc].
  - reflexivity.
  - destruct (lex_ltb k' k0); [reflexivity|].
    destruct (bytes_eqb k' k0) eqn:E0.
    + apply bytes_eqb_eq in E0. subst k0. cbn [find_assoc]. destruct (bytes_eqb k k'); reflexivity.
    + cbn [find_assoc]. destruct (bytes_eqb k k0) eqn:E1.
      * apply bytes_eqb_eq in E1. subst k0. destruct (bytes_eqb k k') eqn:E2; [|reflexivity].
        apply bytes_eqb_eq in E2. subst k'. rewrite bytes_eqb_refl in E0. discriminate.
      * exact IH.
Qed.

Lemma find_assoc_app {V} k (a b : list (bytes * V)) :
  find_assoc k (a ++ b) = match find_assoc k a with Some v => Some v | None => find_assoc k b end.
Proof.
  induction a as [|[k0 v0] a IH]; cbn [app find_assoc]; [reflexivity|].
  destruct (bytes_eqb k k0); [reflexivity|exact IH].
Qed.

Lemma find_assoc_fold {V} k (es : list (bytes * V)) : forall acc,
  find_assoc k (fold_left (fun a kv => bt_insert (fst kv) (snd kv) a) es acc)
  = match find_assoc k (rev es) with Some v => Some v | None => find_assoc k acc end.
Proof.
  induction es as [|[k' v'] es IH]; intro acc; cbn [fold_left rev]; [reflexivity|].
  rewrite IH, find_assoc_app. cbn [fst snd find_assoc]. rewrite find_assoc_bt_insert.
  destruct (find_assoc k (rev es)); [reflexivity|]. destruct (bytes_eqb k k'); reflexivity.
Qed.

Lemma find_assoc_sort_members {V} k (es : list (bytes * V)) :
  find_assoc k (sort_members es) = find_assoc k (rev es).
Proof. unfold sort_members. rewrite find_assoc_fold. destruct (find_assoc k (rev es)); reflexivity. Qed.

Lemma find_assoc_notin {V} k (m : list (bytes * V)) : ~ In k (map fst m) -> find_assoc k m = None.
Proof.
  induction m as [|[k0 v0] m IH]; intro N; cbn [find_assoc]; [reflexivity|].
  destruct (bytes_eqb k k0) eqn:E.
  - apply bytes_eqb_eq in E. subst. exfalso. apply N. left. reflexivity.
  - apply IH. intro H. apply N. right. exact H.
Qed.

Lemma smembers_keys m es : smembers m = Some es -> map fst es = map fst m.
Proof. intro H. rewrite (spec_members_keys _ _ _ H). reflexivity. Qed.

(* two objects with the same canonical form agree on the canonical form of a member that occurs
   once, at the head *)
Theorem cs_obj_head_member k v1 v2 rest1 rest2 b :
  ~ In k (map fst rest1) -> ~ In k (map fst rest2) ->
  cs (JObj ((k, v1) :: rest1)) = Some b -> cs (JObj ((k, v2) :: rest2)) = Some b ->
  cs v1 = cs v2.
Proof.
  intros N1 N2 H1 H2.
  destruct (smembers ((k, v1) :: rest1)) as [es1|] eqn:S1; [|rewrite spec_obj, S1 in H1; discriminate].
  destruct (smembers ((k, v2) :: rest2)) as [es2|] eqn:S2; [|rewrite spec_obj, S2 in H2; discriminate].
  pose proof (cs_obj_entries_inj _ _ _ _ _ H1 H2 S1 S2) as E.
  apply (f_equal (find_assoc k)) in E. rewrite !find_assoc_sort_members in E.
  cbn [spec_members] in S1, S2.
  destruct (cs v1) as [b1|]; [|discriminate]. destruct (smembers rest1) as [r1|] eqn:R1; [|discriminate].
  destruct (cs v2) as [b2|]; [|discriminate]. destruct (smembers rest2) as [r2|] eqn:R2; [|discriminate].
  inversion S1; inversion S2; subst. cbn [rev] in E. rewrite !find_assoc_app in E.
  rewrite (find_assoc_notin k (rev r1)), (find_assoc_notin k (rev r2)) in E.
  - cbn [find_assoc] in E. rewrite bytes_eqb_refl in E. exact E.
  - rewrite map_rev, <- in_rev, (smembers_keys _ _ R2). exact N2.
  - rewrite map_rev, <- in_rev, (smembers_keys _ _ R1). exact N1.
Qed.
