(* Targets of a cached copy: a target that save_target stored (Repository::cache_target) is, at its destination,
   exactly the content the signed metadata names, and reading it back through the verifying adapters - from any
   transport, in any chunking - delivers exactly those bytes without error. Composes C08 (atomic, verified-only
   save) with C06 (soundness and completeness of the checked stream). *)
From ToughV Require Import Model.Base Model.Sig Model.Glob Model.Deleg Model.Client Model.Stream Model.Read
     Model.TName Model.Save.
From ToughV Require Import Proofs.BaseP Proofs.StreamP Proofs.TNameP.
From Coq Require Import ZifyBool ZifyN ZifyNat.

Lemma paths_eqb_refl p : paths_eqb p p = true.
Proof. induction p as [|x p IH]; cbn [paths_eqb]; [reflexivity|]. rewrite bytes_eqb_refl, IH. reflexivity. Qed.

Lemma fs_get_put_same p v m : fs_get p (fs_put p v m) = Some v.
Proof.
  induction m as [|[q w] m IH]; cbn [fs_put fs_get]; [rewrite paths_eqb_refl; reflexivity|].
  destruct (paths_eqb p q) eqn:E; cbn [fs_get]; [rewrite paths_eqb_refl; reflexivity|rewrite E; exact IH].
Qed.

(* all the steps of a save whose stream ended without error: dest holds the received bytes *)
Lemma writes_all dest s : forall f t, fs_tmp f = Some t -> snd (consume s) = true ->
  fs_files (fold_left fs_apply (writes dest s) f) = fs_put dest (t ++ chunk_bytes s) (fs_files f).
Proof.
  induction s as [|it r IH]; intros f t Ht Hok; cbn [writes].
  - cbn [fold_left fs_apply]. rewrite Ht. cbn [fs_files]. rewrite app_nil_r. reflexivity.
  - destruct it as [b| | |]; try (cbn [consume snd] in Hok; discriminate).
    cbn [fold_left fs_apply]. rewrite Ht.
    assert (Hr : snd (consume r) = true).
    { cbn [consume] in Hok. destruct (consume r) as [d ok]. exact Hok. }
    rewrite (IH {| fs_files := fs_files f; fs_tmp := Some (t ++ b) |} (t ++ b) eq_refl Hr).
    cbn [fs_files]. rewrite chunk_bytes_cons, app_assoc. reflexivity.
Qed.

Lemma save_all dest s f : snd (consume s) = true ->
  fs_files (fs_run f (save_steps dest s) (length (save_steps dest s))) = fs_put dest (chunk_bytes s) (fs_files f).
Proof.
  intro Hok. unfold fs_run. rewrite firstn_all. rewrite save_steps_eq. cbn [fold_left fs_apply].
  rewrite (writes_all dest s {| fs_files := fs_files f; fs_tmp := Some [] |} [] eq_refl Hok). reflexivity.
Qed.

Section CacheTarget.
  Variable H : bytes -> N.

  Theorem cached_target_reads_back fx cfg now rp tsrv n prefix outdir f w f' w' ti :
    save_target H fx cfg now rp tsrv n prefix outdir f w = (Ok tt, f', w') ->
    find_target n (rp_targets rp) = Some ti -> ti_len ti < u64max' ->
    exists dest d,
      (* where: inside the output directory, under [<hex digest>.]<resolved name> *)
      save_path outdir (if prefix then ti_hex ti ++ [46] ++ tn_resolved n else tn_resolved n) = inr dest
      (* what: the signed content, byte for byte what the source served *)
      /\ fs_get dest (fs_files f') = Some d
      /\ H d = ti_digest ti /\ N.of_nat (length d) <= ti_len ti
      /\ (exists s, tlookup (if r_cs (rp_root rp) then Some (ti_digest ti) else None, tn_resolved n) tsrv = TStream s
                    /\ d = chunk_bytes s)
      (* and every other file is untouched *)
      /\ (forall p, paths_eqb p dest = false -> fs_get p (fs_files f') = fs_get p (fs_files f))
      (* reading the stored file back through the verifying adapters, in any chunking, delivers it intact *)
      /\ (forall chunks, Forall is_chunk chunks -> chunk_bytes chunks = d ->
                         consume (fetch_sha256 H (ti_len ti) (ti_digest ti) chunks) = (d, true)).
  Proof.
    intros Hs Hf Hl. unfold save_target in Hs. rewrite Hf in Hs.
    set (fname := if prefix then ti_hex ti ++ [46] ++ tn_resolved n else tn_resolved n) in *.
    assert (Hfn : (if prefix then Some (ti_hex ti ++ [46] ++ tn_resolved n) else Some (tn_resolved n)) = Some fname)
      by (unfold fname; destruct prefix; reflexivity).
    rewrite Hfn in Hs.
    destruct (save_path outdir fname) as [[|]|dest] eqn:Hp; try discriminate.
    destruct (read_target H fx cfg now rp tsrv n w) as [[rr|c a] w1] eqn:Hr; [|discriminate].
    destruct rr as [|req s]; [discriminate|].
    cbv zeta in Hs. destruct (snd (consume s)) eqn:Hok; [|discriminate].
    injection Hs as <- <-.
    (* what read_target returned *)
    assert (Hrd : exists raw, tlookup (if r_cs (rp_root rp) then Some (ti_digest ti) else None, tn_resolved n) tsrv = TStream raw
                              /\ s = fetch_sha256 H (ti_len ti) (ti_digest ti) raw).
    { unfold read_target in Hr.
      match type of Hr with (match ?c with _ => _ end) = _ => destruct c as [[u|c0 a0] w0] end; [|discriminate].
      rewrite Hf in Hr. destruct (tlookup _ tsrv) as [| |raw] eqn:L; try discriminate.
      injection Hr as _ Es _. exists raw. split; [reflexivity|symmetry; exact Es]. }
    destruct Hrd as (raw & Hlk & ->).
    set (s := fetch_sha256 H (ti_len ti) (ti_digest ti) raw) in *.
    destruct (consume s) as [d ok] eqn:Ec. cbn [snd] in Hok. subst ok.
    destruct (fetch_sha256_sound H (ti_len ti) (ti_digest ti) raw d Hl Ec) as (Hh & Hlen & Hd & Hch).
    pose proof (consume_ok _ _ Ec) as [Hcb _].
    exists dest, d. split; [exact Hp|].
    assert (Hfiles : fs_files (fs_run f (save_steps dest s) (length (save_steps dest s))) = fs_put dest d (fs_files f)).
    { assert (Hok' : snd (consume s) = true) by (rewrite Ec; reflexivity).
      pose proof (save_all dest s f Hok') as X. rewrite <- Hcb in X. exact X. }
    split.
    { match goal with |- fs_get dest (fs_files ?g) = _ =>
        replace (fs_files g) with (fs_put dest d (fs_files f)) by (symmetry; exact Hfiles) end.
      apply fs_get_put_same. }
    split; [exact Hh|]. split; [exact Hlen|].
    split; [exists raw; split; [exact Hlk|exact Hd]|].
    split.
    { intros p Hpn. match goal with |- fs_get p (fs_files ?g) = _ =>
        replace (fs_files g) with (fs_put dest d (fs_files f)) by (symmetry; exact Hfiles) end.
      apply fs_get_put_other, Hpn. }
    intros chunks Fc Ecb. rewrite <- Ecb. apply fetch_sha256_complete; [exact Hl|exact Fc|rewrite Ecb; exact Hlen|rewrite Ecb; exact Hh].
  Qed.
End CacheTarget.
