From ToughV Require Import Model.Base Model.Keys Proofs.BaseP.
From Coq Require Import ZifyBool ZifyN ZifyNat.
Ltac Zify.zify_post_hook ::= Z.div_mod_to_equations.

(* ---- hex ---- *)
Lemma unhex_hexdigit d : d < 16 -> unhex (hexdigit_lo d) = Some d.
Proof.
  intro H. unfold unhex, hexdigit_lo. destruct (d <? 10) eqn:E.
  - assert ((48 <=? 48 + d) && (48 + d <=? 57) = true) as -> by lia. f_equal. lia.
  - assert ((48 <=? 87 + d) && (87 + d <=? 57) = false) as -> by lia.
    assert ((97 <=? 87 + d) && (87 + d <=? 102) = true) as -> by lia. f_equal. lia.
Qed.

Theorem hex_roundtrip b : Forall (fun x => x < 256) b -> hex_decode (hex_encode b) = Some b.
Proof.
  induction 1 as [|x r Hx Hr IH]; [reflexivity|]. cbn [hex_encode hex_decode].
  rewrite !unhex_hexdigit, IH by lia. f_equal. f_equal. lia.
Qed.

Lemma unhex_upper c : unhex (upper c) = unhex c.
Proof.
  unfold upper. destruct ((97 <=? c) && (c <=? 122)) eqn:E; [|reflexivity].
  unfold unhex.
  assert ((48 <=? c - 32) && (c - 32 <=? 57) = false) as -> by lia.
  assert ((48 <=? c) && (c <=? 57) = false) as -> by lia.
  assert ((97 <=? c - 32) && (c - 32 <=? 102) = false) as -> by lia.
  destruct ((97 <=? c) && (c <=? 102)) eqn:F.
  - assert ((65 <=? c - 32) && (c - 32 <=? 70) = true) as -> by lia. f_equal. lia.
  - assert ((65 <=? c - 32) && (c - 32 <=? 70) = false) as -> by lia.
    assert ((65 <=? c) && (c <=? 70) = false) as -> by lia. reflexivity.
Qed.

(* the other hex case spells the same identifier *)
Theorem hex_case_insensitive : forall s, hex_decode (map upper s) = hex_decode s.
Proof.
  fix IH 1. intros [|h [|l r]]; [reflexivity|reflexivity|].
  cbn [map hex_decode]. rewrite !unhex_upper, (IH r). reflexivity.
Qed.

(* ---- key tables ---- *)
Section KeyTable.
  Variable key : Type.
  Variable calc : key -> bytes.

  Lemma existsb_fst_false (acc : list (bytes * key)) id :
    existsb (fun e => bytes_eqb (fst e) id) acc = false <-> ~ In id (map fst acc).
  Proof.
    induction acc as [|[i k] acc IH]; cbn [existsb map In fst]; [split; auto|].
    rewrite orb_false_iff, IH. split.
    - intros [E Hn] [H|H]; [subst; rewrite bytes_eqb_refl in E; discriminate|exact (Hn H)].
    - intro Hn. split; [apply bytes_eqb_neq; intro E; apply Hn; left; exact E|intro H; apply Hn; right; exact H].
  Qed.

  (* soundness: a table that parses attributes every key to the identifier that is the digest of the
     key, lists no identifier twice, and keeps every entry *)
  Lemma parse_keys_sound entries : forall acc m,
    parse_keys key calc acc entries = Some m ->
    NoDup (map fst acc) -> (forall id k, In (id, k) acc -> id = calc k) ->
    NoDup (map fst m) /\ (forall id k, In (id, k) m -> id = calc k)
    /\ m = rev acc ++ map (fun e => (calc (snd e), snd e)) entries
    /\ Forall (fun e => hex_decode (fst e) = Some (calc (snd e))) entries.
  Proof.
    induction entries as [|[idtext k] rest IH]; intros acc m H Hnd Hacc; cbn [parse_keys] in H.
    - inversion H; subst. rewrite app_nil_r. repeat split.
      + rewrite map_rev. apply NoDup_rev, Hnd.
      + intros id k Hin. apply in_rev in Hin. apply Hacc, Hin.
      + constructor.
    - destruct (hex_decode idtext) as [id|] eqn:Eh; [|discriminate].
      destruct (bytes_eqb id (calc k)) eqn:Ec; cbn [negb] in H; [|discriminate].
      apply bytes_eqb_eq in Ec. subst id.
      destruct (existsb (fun e => bytes_eqb (fst e) (calc k)) acc) eqn:Ed; [discriminate|].
      apply existsb_fst_false in Ed.
      destruct (IH ((calc k, k) :: acc) m H) as (N & A & E & F).
      + cbn [map fst]. constructor; assumption.
      + intros id k' [X|X]; [inversion X; reflexivity|apply Hacc, X].
      + split; [exact N|split; [exact A|split]].
        * rewrite E. cbn [rev map snd]. rewrite <- app_assoc. reflexivity.
        * constructor; [exact Eh|exact F].
  Qed.

  (* completeness: correct, pairwise distinct identifiers always parse *)
  Lemma parse_keys_complete entries : forall acc,
    Forall (fun e => hex_decode (fst e) = Some (calc (snd e))) entries ->
    NoDup (map fst acc ++ map (fun e => calc (snd e)) entries) ->
    parse_keys key calc acc entries = Some (rev acc ++ map (fun e => (calc (snd e), snd e)) entries).
  Proof.
    induction entries as [|[idtext k] rest IH]; intros acc F N; cbn [parse_keys].
    - rewrite app_nil_r. reflexivity.
    - inversion F as [|? ? Fh Fr]; subst. cbn [fst snd] in Fh. rewrite Fh, bytes_eqb_refl. cbn [negb].
      assert (Hn : ~ In (calc k) (map fst acc)).
      { cbn [map snd] in N. intro X. apply NoDup_remove_2 in N. apply N. apply in_or_app. left. exact X. }
      apply existsb_fst_false in Hn. rewrite Hn.
      rewrite IH; [cbn [rev map snd]; rewrite <- app_assoc; reflexivity|exact Fr|].
      cbn [map fst snd] in *. apply NoDup_remove_1 in N as N1.
      apply NoDup_remove_2 in N as N2. constructor; [exact N2|exact N1].
  Qed.

  (* anything else is refused: a wrong identifier or a repeated one *)
  Lemma parse_keys_refuses_wrong_id pre idtext k post acc :
    hex_decode idtext <> Some (calc k) ->
    parse_keys key calc acc (pre ++ (idtext, k) :: post) = None.
  Proof.
    revert acc. induction pre as [|[i0 k0] pre IH]; intros acc Hw; cbn [app parse_keys].
    - destruct (hex_decode idtext) as [id|]; [|reflexivity].
      destruct (bytes_eqb id (calc k)) eqn:E; [apply bytes_eqb_eq in E; subst; contradiction|reflexivity].
    - destruct (hex_decode i0) as [id|]; [|reflexivity].
      destruct (negb (bytes_eqb id (calc k0))); [reflexivity|].
      destruct (existsb _ acc); [reflexivity|]. apply IH, Hw.
  Qed.
End KeyTable.

(* ---- DER ---- *)
Definition be_val (l : bytes) : N := fold_left (fun acc x => acc * 256 + x) l 0.

Lemma be_val_app l x : be_val (l ++ [x]) = be_val l * 256 + x.
Proof. unfold be_val. rewrite fold_left_app. reflexivity. Qed.

Lemma be_bytes_spec f : forall n, n < 256 ^ N.of_nat f ->
  be_val (be_bytes f n) = n /\ (length (be_bytes f n) <= f)%nat
  /\ (n <> 0 -> be_bytes f n <> []) /\ Forall (fun x => x < 256) (be_bytes f n).
Proof.
  induction f as [|f IH]; intros n Hn.
  - assert (n = 0) by (cbn in Hn; lia). subst. cbn [be_bytes be_val fold_left length].
    split; [reflexivity|split; [lia|split; [intro X; contradiction|constructor]]].
  - cbn [be_bytes]. destruct (n =? 0) eqn:E.
    + apply N.eqb_eq in E. subst. cbn [be_val fold_left length].
      split; [reflexivity|split; [lia|split; [intro X; contradiction|constructor]]].
    + assert (Hd : n / 256 < 256 ^ N.of_nat f).
      { rewrite Nat2N.inj_succ, N.pow_succ_r' in Hn. lia. }
      destruct (IH _ Hd) as (V & L & _ & A). split; [|split; [|split]].
      * rewrite be_val_app, V. lia.
      * rewrite app_length. cbn [length]. lia.
      * intros _ X. apply app_eq_nil in X as [_ X]. discriminate.
      * apply Forall_app. split; [exact A|constructor; [lia|constructor]].
Qed.

Lemma der_len_encode n r : n < 256 ^ 9 -> der_len (asn1_encode_len n ++ r) = Some (n, r).
Proof.
  intro Hn. unfold asn1_encode_len. destruct (n <? 128) eqn:E.
  - cbn [app der_len]. rewrite E. reflexivity.
  - destruct (be_bytes_spec 9 n Hn) as (V & L & NE & _).
    set (b := be_bytes 9 n) in *. cbn [app der_len].
    assert (Hb : b <> []) by (apply NE; lia).
    assert (E1 : (128 + N.of_nat (length b) <? 128) = false) by lia. rewrite E1.
    assert (E2 : N.to_nat (128 + N.of_nat (length b) - 128) = length b) by lia. rewrite E2.
    assert (E3 : (length b =? 0)%nat = false) by (destruct b; [contradiction|reflexivity]). rewrite E3.
    assert (E4 : (length (b ++ r) <? length b)%nat = false) by (rewrite app_length; apply Nat.ltb_ge; lia).
    rewrite E4. rewrite firstn_app, Nat.sub_diag, firstn_all, firstn_O, app_nil_r.
    rewrite skipn_app, Nat.sub_diag, skipn_all, skipn_O. cbn [app]. fold (be_val b). rewrite V. reflexivity.
Qed.

Lemma der_tlv_tag tag d r : N.of_nat (length d) < 256 ^ 9 ->
  der_tlv tag (asn1_tag tag d ++ r) = Some (d, r).
Proof.
  intro H. unfold asn1_tag. cbn [app der_tlv]. rewrite N.eqb_refl. rewrite <- app_assoc.
  rewrite der_len_encode by exact H. rewrite Nat2N.id.
  assert ((length (d ++ r) <? length d)%nat = false) as -> by (rewrite app_length; apply Nat.ltb_ge; lia).
  rewrite firstn_app, Nat.sub_diag, firstn_all, firstn_O, app_nil_r.
  rewrite skipn_app, Nat.sub_diag, skipn_all, skipn_O. reflexivity.
Qed.

Lemma asn1_tag_length tag d : (length (asn1_tag tag d) <= length d + 11)%nat.
Proof.
  unfold asn1_tag, asn1_encode_len. cbn [length]. rewrite app_length.
  destruct (N.of_nat (length d) <? 128); cbn [length]; [lia|].
  assert (length (be_bytes 9 (N.of_nat (length d))) <= 9)%nat; [|lia].
  clear. generalize (N.of_nat (length d)). generalize 9%nat. induction n as [|f IH]; intro m; cbn [be_bytes]; [cbn; lia|].
  destruct (m =? 0); [cbn; lia|]. rewrite app_length. cbn [length]. specialize (IH (m / 256)). lia.
Qed.

(* the DER wrapping of a public key is undone exactly by the decoder, for every key of fewer than
   2^60 bytes, for the algorithm identifiers the library uses (RSA; EC with P-256) *)
Lemma spki_roundtrip_gen alg params b :
  alg_ok alg params (alg_ident alg params) = true -> (length (alg_ident alg params) <= 64)%nat ->
  N.of_nat (length b) < 2 ^ 60 ->
  spki_decode alg params (spki_encode alg params b) = Some b.
Proof.
  intros Hok Hai Hb. unfold spki_encode, spki_decode.
  assert (P : 256 ^ 9 = 4722366482869645213696) by reflexivity.
  assert (Q : 2 ^ 60 = 1152921504606846976) by reflexivity.
  pose proof (asn1_tag_length 48 (alg_ident alg params)) as L1.
  pose proof (asn1_tag_length 3 (0 :: b)) as L2. cbn [length] in L2.
  rewrite <- (app_nil_r (asn1_tag 48 (asn1_tag 48 (alg_ident alg params) ++ asn1_tag 3 (0 :: b)))).
  rewrite der_tlv_tag by (rewrite app_length; lia).
  rewrite der_tlv_tag by lia. rewrite Hok.
  rewrite <- (app_nil_r (asn1_tag 3 (0 :: b))). rewrite der_tlv_tag by (cbn [length]; lia).
  reflexivity.
Qed.

Theorem spki_roundtrip_rsa b : N.of_nat (length b) < 2 ^ 60 ->
  spki_decode OID_RSA None (spki_encode OID_RSA None b) = Some b.
Proof. apply spki_roundtrip_gen; [vm_compute; reflexivity|vm_compute; lia]. Qed.

Theorem spki_roundtrip_ec b : N.of_nat (length b) < 2 ^ 60 ->
  spki_decode OID_EC (Some OID_P256) (spki_encode OID_EC (Some OID_P256) b) = Some b.
Proof. apply spki_roundtrip_gen; [vm_compute; reflexivity|vm_compute; lia]. Qed.

Example der_examples :
  asn1_encode_oid OID_RSA = [42; 134; 72; 134; 247; 13; 1; 1; 1]
  /\ to_vlq 16384 = [129; 128; 0] /\ to_vlq 268435455 = [255; 255; 255; 127]
  /\ asn1_encode_len 1110 = [130; 4; 86] /\ asn1_encode_len 132 = [129; 132].
Proof. repeat split; vm_compute; reflexivity. Qed.
