From ToughV Require Import Model.Base Model.Run.
Require Extraction.
Require Import ExtrOcamlBasic.
Extraction "model.ml" run_line.
