"""Abstract repository scenarios for the client-side properties (C01-C05, C09, C14, C15).

A scenario is a table of documents (with symbolic signatures [claim, by, ok]) and a list of update
cycles, each with a shipped root, a scripted server, limits, enforcement and a clock offset. The
Rust harness concretises it (real keys, real signatures, real JSON), runs the real client, and
returns both the implementation's observables and the abstraction of what it built, which is then
fed to the Coq model. See harness/src/repo.rs and harness/src/client.rs for the format.
"""
import urllib.parse

FAR = 86400 * 365 * 5
FIXED = [1, 1, 1, 1, 1, 1, 1]
ROLES = ["root", "snapshot", "targets", "timestamp"]
DEFAULT_ROLES = {"root": ([0], 1), "snapshot": ([1], 1), "targets": ([2], 1), "timestamp": ([3], 1)}


def valid(keys):
    return [[k, k, 1] for k in keys]


def enc_name(name):
    return urllib.parse.quote(name, safe="")


class Scen:
    def __init__(self, fixes=None):
        self.docs = {}
        self.cycles = []
        self.fixes = list(fixes or FIXED)

    def add(self, spec, hint="d"):
        i = "%s%d" % (hint, len(self.docs))
        self.docs[i] = spec
        return i

    def root(self, version=1, roles=None, cs=False, keys=None, sigs=None, expires=FAR, **kw):
        roles = {k: (list(v[0]), v[1]) for k, v in (roles or DEFAULT_ROLES).items()}
        if keys is None:
            keys = sorted({k for ks, _ in roles.values() for k in ks})
        if sigs is None:
            sigs = valid(roles["root"][0]) if "root" in roles else []
        spec = {"type": "root", "version": version, "cs": cs, "keys": keys, "expires": expires,
                "roles": {k: [v[0], v[1]] for k, v in roles.items()}, "sigs": sigs}
        spec.update(kw)
        return self.add(spec, "root")

    def targets(self, version=1, targets=None, delegations=None, sigs=None, expires=FAR, **kw):
        spec = {"type": "targets", "version": version, "expires": expires,
                "targets": targets or [], "delegations": delegations,
                "sigs": valid([2]) if sigs is None else sigs}
        spec.update(kw)
        return self.add(spec, "tgt")

    def snapshot(self, version=1, meta=None, sigs=None, expires=FAR, **kw):
        spec = {"type": "snapshot", "version": version, "expires": expires, "meta": meta or {},
                "sigs": valid([1]) if sigs is None else sigs}
        spec.update(kw)
        return self.add(spec, "snap")

    def timestamp(self, version=1, meta=None, sigs=None, expires=FAR, **kw):
        spec = {"type": "timestamp", "version": version, "expires": expires, "meta": meta or {},
                "sigs": valid([3]) if sigs is None else sigs}
        spec.update(kw)
        return self.add(spec, "ts")

    def junk(self, text="{not json"):
        return self.add({"type": "junk", "bytes": text}, "junk")

    def cycle(self, shipped, files, limits=None, enforce=True, now=0, **kw):
        c = {"shipped": shipped, "files": files, "limits": limits or {}, "enforce": enforce, "now": now}
        c.update(kw)
        self.cycles.append(c)
        return c

    def case(self):
        return {"p": 6, "op": 0, "fixes": self.fixes, "docs": self.docs, "cycles": self.cycles}


def meta(of, version, length="exact", hash="exact"):
    return {"of": of, "version": version, "length": length, "hash": hash}


def top_files(cs, ts, snap, snap_v, tgt, tgt_v, roots=(), delegated=()):
    """server file map of a consistent repository; roots: [(version, doc)], delegated: [(name, version, doc)]"""
    f = {"timestamp.json": {"doc": ts}}
    f[("%d.snapshot.json" % snap_v) if cs else "snapshot.json"] = {"doc": snap}
    f[("%d.targets.json" % tgt_v) if cs else "targets.json"] = {"doc": tgt}
    for v, d in roots:
        f["%d.root.json" % v] = {"doc": d}
    for name, v, d in delegated:
        f[(("%d." % v) if cs else "") + enc_name(name) + ".json"] = {"doc": d}
    return f


def simple_repo(s, cs=False, versions=(1, 1, 1, 1), roles=None, root=None, lengths="exact", hashes="exact",
                targets=None, signers=None, delegate=None, delegate_depth=1):
    """versions = (timestamp, snapshot, targets, snapshot-listed targets). Returns (root, files).
    delegate: name of one delegated role (version 9, key 7, no targets) the top-level role delegates to."""
    tsv, snv, tgv, listed = versions
    signers = signers or {"snapshot": [1], "targets": [2], "timestamp": [3]}
    r = root if root is not None else s.root(cs=cs, roles=roles)
    deleg, dl, metas = None, [], {}
    if delegate is not None:
        leaf = s.targets(version=9, targets=[], sigs=valid([7]))
        deleg = {"keys": [7], "roles": [{"name": delegate, "keyids": [7], "threshold": 1, "paths": ["zz/*"]}]}
        dl = [(delegate, 9, leaf)]
        metas[delegate + ".json"] = meta(leaf, 9, lengths, hashes)
        for lvl in range(delegate_depth - 1):
            # further roles in between: targets -> mid0 -> ... -> <delegate>
            mid = s.targets(version=8, targets=[], sigs=valid([7]), delegations=deleg)
            nm = "mid%d" % lvl
            deleg = {"keys": [7], "roles": [{"name": nm, "keyids": [7], "threshold": 1, "paths": ["zz/*"]}]}
            dl.insert(0, (nm, 8, mid))
            metas[nm + ".json"] = meta(mid, 8, lengths, hashes)
    tgt = s.targets(version=tgv, targets=targets or [{"name": "file.txt", "content": "hello"}],
                    sigs=valid(signers["targets"]), **({"delegations": deleg} if deleg else {}))
    metas["targets.json"] = meta(tgt, listed, lengths, hashes)
    snap = s.snapshot(version=snv, meta=metas, sigs=valid(signers["snapshot"]))
    ts = s.timestamp(version=tsv, meta={"snapshot.json": meta(snap, snv, lengths, hashes)},
                     sigs=valid(signers["timestamp"]))
    files = top_files(cs, ts, snap, snv, tgt, listed, delegated=dl)
    return r, files


def canon_result(r):
    """canonicalise a model result to the observables the implementation exposes:
    stream-level and fetch-level transport failures are not distinguishable from outside"""
    res = list(r[0])
    if res and res[0] == 4:
        res[1] = {5: 0, 4: 1}.get(res[1], res[1])
    out = [res, r[1], r[2]]
    if len(r) > 3:
        out.append([canon_op(o) for o in r[3]])
    return out


def canon_op(o):
    """file-system listings are compared as sorted lists"""
    if isinstance(o, list) and o and o[0] == 3:
        return [3, o[1], sorted(o[2])]
    return o
