import json, sys
props={json.loads(l)['id']:json.loads(l) for l in open('/verif/properties.jsonl')}
def prompt(pid):
    p=props[pid]
    return f"""You are given a git worktree of the Rust project awslabs/tough (a TUF - The Update Framework - client library `tough`, a canonical-JSON crate `olpc-cjson`, and a CLI `tuftool`) at /tmp/seed-{pid}. Work ONLY inside /tmp/seed-{pid}; do not read or touch /repo or /verif or any other /tmp/seed-* directory. There is no network; build with `cargo ... --offline`. Use your own target directory (default `target/` inside the worktree is fine).

## The semantic property
"{p['title']}": {p['statement']}
(It is meant to hold for: {p['quantifier']['text']})
Relevant code: {', '.join(p['anchors']['files'])}

## Your task
Produce ONE realistic code change to the project (as a bug a maintainer could plausibly introduce in a refactoring or feature commit: small, innocuous-looking, idiomatic) that BREAKS this property while the project still compiles and the EXISTING test suite still passes. The breakage must need something specific to manifest - a particular multi-step sequence of operations, an unusual but legitimate input, a crash or fault at a particular point, a particular combination of settings, or two cooperating code sites that each look fine alone - NOT something that ordinary use or the existing tests would expose at once. Do not add new public API and do not change test files. Prefer subtle logic changes (a comparison, an ordering of two steps, a condition that is slightly too permissive or applied to the wrong object, a value taken from the wrong place) over deletions of whole checks.

Deliver, inside /tmp/seed-{pid}/seed_out/ :
1. `patch.diff` - output of `git diff` for your change (only source changes under the crates; not the demo).
2. a demonstration that FAILS with your change and PASSES without it: preferably a new integration test file placed at `tough/tests/seed_demo.rs` (or `olpc-cjson/tests/seed_demo.rs`, or a small shell script using the tuftool binary) - copy it to `seed_out/` as well. It should set up the specific situation (you can build signed repositories with `tough::editor::RepositoryEditor` and the test keys under tough/tests/data, look at the existing tests in tough/tests/ for how to do it) and assert the property.
3. `meta.json`: {{"property": "{pid}", "summary": one sentence, "needs": what specific situation is needed for the breakage to manifest, "files_changed": [...], "commands": the commands you ran to show (a) the existing tests of the affected crate(s) pass with the change (`cargo test -p <crate> --offline`, excluding your demo), (b) the demo fails with the change, (c) the demo passes without the change (git stash the source change)}}.

Verify all three things yourself by actually running the commands (the first build takes a few minutes). When done, leave the worktree with your change APPLIED and the demo file present, and reply with a short report: what the change is, why it breaks the property, what is needed to see it, and the exact commands/results."""
text = prompt(sys.argv[1])
if len(sys.argv) > 2:
    text += ("\n\nIdeas that were already used by others and that you must NOT repeat (find a different mechanism, "
             "preferably in a different function or code site): " + sys.argv[2])
    text += ("\nDo not use `git stash` (the stash is shared between worktrees); to toggle your change use "
             "`git diff > seed_out/patch.diff`, `git apply -R seed_out/patch.diff` and `git apply seed_out/patch.diff`.")
print(text)
