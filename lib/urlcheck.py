"""Url::join + FilesystemTransport against Path::join (Model/Url.v, theorems C10_published_target_found,
C19_cached_target_served): the model's url_join against the url crate's on generated file names, and the model's
put-then-fetch against a real directory and the real FilesystemTransport. Used by the C10 and C19 checks.

The specification oracle is stated on the implementation's own results: a file put under a PLAIN name (the Coq
predicate url_plain, evaluated by the extracted model) must be found again with the same bytes. Names outside
url_plain are the known class url_encoded_target_name; there the model must still predict what the real code does."""
import itertools
from lib import common as C

ALPHABET = ["a", "B", "7", ".", "/", "%", "2", "e", "E", " ", ":", "|", "\\", "?", "#", "\t", "é", "~", "+", "{", "\"", "c"]
SPECIAL = ["file.txt", "dir/sub/f", "a b", "a%20b", "%2e%2e/x", "%2E./x", ".%2e/x", "%2e/x", "x/%2e", "x/%2E%2E", "a?b", "a#b",
           "a:b", "1a:b", "a/b:c", "ab.x:y", "0b.x:y", "c|/x", "c:/x", "x/c:", "x/c|/y", "//h/x", "/abs", "\\abs", "\\\\h\\x",
           "a\\b", "a\tb", " a", "a ", "\x01a", "a\x7fb", "é", "中/文", "\U0001F600", "a<b", "a>b", "a`b", "a{b}", "a\"b",
           "a^b", "a[b]", "a|b", "a;b=c@d", "a&b$c!d'e(f)g*h,i", "x/", "x//y", "./x", "x/.", "x/./y", "x/../y", "..", ".",
           "file:x", "file:/x", "file:///x", "http://h/x", "a+b-c.d:e", "%", "%zz", "%41", "a%", "~", "-", "_",
           "0123456789abcdef0123456789abcdef0123456789abcdef0123456789abcdef.name",
           "f123456789abcdef0123456789abcdef0123456789abcdef0123456789abcdef.na:me",
           "0123456789abcdef0123456789abcdef0123456789abcdef0123456789abcdef.na:me"]
BASES = [["d"], ["tmp", "x", "targets"], ["a.b", "c-d_e~f"]]


def names(chk, quick_n, thorough_n):
    out = list(SPECIAL)
    maxlen = 2 if chk.tier == "quick" else 3
    for n in range(1, maxlen + 1):
        for t in itertools.product(ALPHABET, repeat=n):
            out.append("".join(t))
    k = quick_n if chk.tier == "quick" else thorough_n
    pool = ALPHABET + list("abcxyz019-_") + ["%2e", "%2E", "..", "dir/", "/"]
    for _ in range(k):
        out.append("".join(chk.rng.choice(pool) for _ in range(chk.rng.randint(1, 12))))
    plainpool = list("abcdefXYZ0189-_.~+=,;@!$&'()*[]^|:%") + ["/"]
    for _ in range(k):
        out.append("".join(chk.rng.choice(plainpool) for _ in range(chk.rng.randint(1, 20))))
    out = [n for n in dict.fromkeys(out) if n and "\x00" not in n]
    return out


def run(chk, quick_n=1500, thorough_n=40000):
    """returns the set of names the model calls plain (for the caller's statistics)"""
    nm = names(chk, quick_n, thorough_n)
    join_cases = []
    for i, n in enumerate(nm):
        base = BASES[i % len(BASES)]
        join_cases.append([21, 0, [C.enc(b) for b in base], C.enc(n)])
    fs_cases = [[21, 1, C.enc(n), C.enc("content of " + n)] for n in nm]
    mres = C.run_model(join_cases + fs_cases)
    ires = C.run_impl(join_cases + fs_cases)
    k = len(join_cases)
    plain = set()
    for n, c, mr, ir in zip(nm, join_cases, mres[:k], ires[:k]):
        chk.count("url-join-compared")
        full = {"what": "Url::join of a target file name on a file:// base URL", "base": [C.b2s(b) for b in c[2]], "file": n,
                "model": mr, "impl": ir}
        m_url, m_plain, m_put = mr[0], mr[1], mr[2]
        if m_plain:
            plain.add(n)
            chk.count("url-plain-names")
        else:
            chk.count("url-known-class-names")
        chk.seen(c, not m_plain)
        if m_url[0] in (1, 2, 3) and m_url != ir:     # a URL of its own (file:x is taken as relative), a host, a drive letter
            chk.count("url-outside-restated-fragment:%d" % m_url[0])
            continue
        if m_url != ir:
            if m_plain:
                # the theorem's conclusion fails on the real url crate for a plain name: the file a client opens is
                # not the file that was put
                chk.violation("Url::join opens %s for the plain file name %r, Path::join puts it at %s"
                              % (ir, n, [C.b2s(x) for x in m_put]), full)
            else:
                chk.broken("correspondence: model url_join differs from the url crate", full)
    for n, c, mr, ir in zip(nm, fs_cases, mres[k:], ires[k:]):
        if ir == [9]:
            chk.count("fs-roundtrip-not-tried(name leaves the directory)")
            continue
        chk.count("fs-roundtrip-compared")
        full = {"what": "content put at outdir.join(file), fetched from base_url.join(file) through FilesystemTransport",
                "file": n, "model": mr if len(str(mr)) < 300 else str(mr)[:300], "impl": ir if len(str(ir)) < 300 else str(ir)[:300]}
        if n in plain:
            want = [0, C.enc("content of " + n)]
            if ir != want:
                chk.violation("a file put under the plain name %r is not found again through FilesystemTransport: %s"
                              % (n, str(ir)[:80]), full)
                continue
        if mr == [2] or (mr != ir and ir == [2]):
            # refused: outside the re-stated fragment (URL of its own, host, drive letter)
            chk.count("fs-roundtrip-outside-restated-fragment")
            continue
        if mr != ir:
            chk.broken("correspondence: model fs_fetch after put differs from the real directory + FilesystemTransport", full)
    safe_names(chk)
    decoded_twins(chk)
    return plain


def decoded_twins(chk):
    """FilesystemTransport opens the URL path as it stands (urlpath.rs: no percent-decoding). A file is put where the
    percent-DECODED spelling of a name points - inside the directory, in a sub-directory, next to the directory - and the
    encoded name is fetched: it must not be found there (only at the path url_join names). Role file names
    (encode_filename) and target names with escapes."""
    import posixpath
    import urllib.parse
    names_ = ["..%2Fsecret.json", "a%2Fb.json", "1.x%2F..%2F..%2Foutside.json", "%2E%2E%2Fup.json", "a%20b.json", "%61.json",
              "sub%2F..%2Fc.json", "a%252Fb.json", "%C3%A9.json", "dir/a%2Fb", "a b", "é.bin", "x%2Fy/z%2Fw.json"]
    for _ in range(60 if chk.tier == "quick" else 1500):
        names_.append("".join(chk.rng.choice(["a", "b", "%2F", "%2E", "%2e", "..", ".", "%25", "%20", "/", "1", "x"])
                              for _ in range(chk.rng.randint(1, 6))) + ".json")
    cases, info = [], []
    for n in dict.fromkeys(names_):
        dec = urllib.parse.unquote(n)
        if dec == n or dec.startswith("/") or "\x00" in dec:
            continue
        path = posixpath.normpath("t/" + dec)
        comps = path.split("/")
        if path.startswith("..") or path in (".", "t") or any(c in ("", ".", "..") for c in comps):
            continue
        cases.append([21, 2, C.enc(n), C.enc("twin of " + n), [C.enc(c) for c in comps]])
        info.append((n, path))
    if not cases:
        return
    mres, ires = C.run_model(cases), C.run_impl(cases)
    for (n, path), c, mr, ir in zip(info, cases, mres, ires):
        if ir == [9]:
            continue
        chk.count("decoded-twin-compared")
        chk.seen(c, True)
        full = {"what": "a file put where the percent-decoded spelling of a name points; the encoded name is fetched from "
                        "file:///<fresh>/t/", "file": n, "put_at": path, "model": mr, "impl": str(ir)[:200]}
        if mr == [1] and isinstance(ir, list) and ir and ir[0] == 0:
            chk.violation("FilesystemTransport answered the request for %r with the file at %r: the URL path was "
                          "percent-decoded (a role or target file name can then leave its directory, and two names share a "
                          "file)" % (n, path), full)
        elif mr != ir and mr != [2] and ir != [2]:
            chk.broken("correspondence: model fs_fetch differs from FilesystemTransport on a percent-encoded name", full)


def safe_names(chk):
    """C10_safe_names_are_plain on the real code: raw names over the unreserved characters and '/', with '.' and '..'
    components and repeated slashes; TargetName::new resolves them (harness p = 8), the resolved name - alone and behind a
    hex digest - must be plain for the model, and a file put under it must be found again by the real transport"""
    parts = ["a", "b.c", "..", ".", "", "x-y_z~", "..a", "a..", "...", "0", "A.B"]
    raws = []
    for _ in range(300 if chk.tier == "quick" else 5000):
        raws.append("/".join(chk.rng.choice(parts) for _ in range(chk.rng.randint(1, 5))))
    raws = [r for r in dict.fromkeys(raws) if r and not r.startswith("/")]
    res = C.run_impl([[8, 0, C.enc(r)] for r in raws])
    ok = [(r, C.b2s(x[1])) for r, x in zip(raws, res) if isinstance(x, list) and x and x[0] == 0]
    hexd = "0123456789abcdef" * 4
    files = [n for _, n in ok] + [hexd + "." + n for _, n in ok]
    pm = is_plain(files)
    fs = C.run_impl([[21, 1, C.enc(f), C.enc("safe " + f)] for f in files])
    for f, got in zip(files, fs):
        chk.count("safe-name-roundtrip")
        full = {"what": "a resolved target name over the unreserved characters and '/', put and fetched", "file": f,
                "model_plain": pm[f], "impl": str(got)[:200]}
        if not pm[f]:
            chk.broken("C10_safe_names_are_plain: the model does not call the resolved safe name %r plain" % f, full)
        elif got != [0, C.enc("safe " + f)]:
            chk.violation("a file put under the resolved safe name %r is not found again through FilesystemTransport" % f, full)


def is_plain(names_list):
    """the Coq predicate url_plain on file names, evaluated by the extracted model"""
    res = C.run_model([[21, 0, [C.enc("d")], C.enc(n)] for n in names_list])
    return {n: bool(r[1]) for n, r in zip(names_list, res)}
