"""Shared machinery of the tough verification driver (see DESIGN.md section 3).

Everything that decides a property lives in three places: the Coq development under coq/ (model,
proofs, pinned property theorems), the Rust harness under harness/ (runs the implementation built
from /repo's current working tree) and the per-property check modules under checks/ (case
generation, comparison, specification oracle).  This module only provides plumbing: building,
running model and implementation on the same case lines, the proof gate, evidence and verdicts.
"""
import fcntl
import hashlib
import json
import os
import random
import re
import shutil
import subprocess
import sys
import time

VERIF = os.path.dirname(os.path.dirname(os.path.abspath(__file__)))
REPO = os.environ.get("TOUGH_REPO", "/repo")
CACHE = os.path.join(VERIF, ".cache")
COQ = os.path.join(VERIF, "coq")
OCAML = os.path.join(VERIF, "ocaml")
HARNESS = os.path.join(VERIF, "harness")
TARGET = os.path.join(CACHE, "target")
IMPLRUN = os.path.join(TARGET, "release", "implrun")
TUFTOOL = os.path.join(TARGET, "release", "tuftool")
MODELRUN = os.path.join(OCAML, "modelrun")
EVIDENCE = os.path.join(VERIF, "evidence")
REPLAY = os.path.join(VERIF, "replay")
NPROC = 16

ENV = dict(os.environ)
ENV.update({"CARGO_NET_OFFLINE": "true", "CARGO_TARGET_DIR": TARGET})

KERNEL_TB = [
    "Coq 8.16.1 kernel (coqc, full .vo build through coq_makefile; no -vos/-vok; no native_compute)",
    "vm_compute used only for Example/refuted witnesses",
    "extraction: Require Extraction + ExtrOcamlBasic only (Extract Inductive bool, option, unit, "
    "list, prod, sumbool, sumor; no Extract Constant); N/Z/positive stay Coq's binary datatypes",
    "ocaml/main.ml (line <-> list of byte values), harness/ (Rust, path deps on /repo/tough and "
    "/repo/olpc-cjson), checks/*.py generators and comparison: trusted to report faithfully",
]


def log(*a):
    print(*a, file=sys.stderr, flush=True)


class Lock:
    def __init__(self, name):
        os.makedirs(CACHE, exist_ok=True)
        self.path = os.path.join(CACHE, name + ".lock")

    def __enter__(self):
        self.f = open(self.path, "w")
        fcntl.flock(self.f, fcntl.LOCK_EX)
        return self

    def __exit__(self, *a):
        fcntl.flock(self.f, fcntl.LOCK_UN)
        self.f.close()


def sh(cmd, cwd=None, timeout=3600, env=None, check=True, inp=None):
    r = subprocess.run(cmd, cwd=cwd, timeout=timeout, env=env or ENV, input=inp,
                       stdout=subprocess.PIPE, stderr=subprocess.STDOUT, text=True)
    if check and r.returncode != 0:
        raise BuildError("command failed (%d): %s\n%s" % (r.returncode, " ".join(cmd), r.stdout[-6000:]))
    return r


class BuildError(Exception):
    pass


# ------------------------------------------------------------------------------------------------
# building

def coq_sources():
    out = []
    for root, _, files in os.walk(COQ):
        for f in files:
            if f.endswith(".v"):
                out.append(os.path.join(root, f))
    return sorted(out)


FORBIDDEN = re.compile(
    r"\b(Admitted|admit|Axiom|Axioms|Parameter|Parameters|Conjecture|Conjectures|Abort All|"
    r"Admit Obligations|bypass_check|Unset Guard Checking|Unset Positivity Checking|"
    r"Unset Universe Checking|type-in-type|impredicative-set)\b")


def strip_coq_comments(s):
    out, depth, i = [], 0, 0
    while i < len(s):
        if s.startswith("(*", i):
            depth += 1
            i += 2
        elif s.startswith("*)", i) and depth > 0:
            depth -= 1
            i += 2
        else:
            if depth == 0:
                out.append(s[i])
            i += 1
    return "".join(out)


def forbidden_tokens():
    """Admitted / Axiom / ... anywhere in the development (comments stripped). Section-less
    Variable/Hypothesis are caught as well (a crude but conservative scan)."""
    bad = []
    for p in coq_sources():
        src = strip_coq_comments(open(p).read())
        for m in FORBIDDEN.finditer(src):
            bad.append("%s: %s" % (os.path.relpath(p, VERIF), m.group(0)))
        depth = 0
        for line in src.split("\n"):
            t = line.strip()
            if re.match(r"Section\b", t):
                depth += 1
            elif re.match(r"End\b", t) and depth > 0:
                depth -= 1
            elif depth == 0 and re.match(r"(Variable|Variables|Hypothesis|Hypotheses|Context)\b", t):
                bad.append("%s: section-less %s" % (os.path.relpath(p, VERIF), t[:40]))
    return bad


def ensure_coq(force=False):
    """Full .vo build of the development and of the extracted model runner."""
    with Lock("coq"):
        mk = os.path.join(COQ, "Makefile")
        cp = os.path.join(COQ, "_CoqProject")
        if force or not os.path.exists(mk) or os.path.getmtime(mk) < os.path.getmtime(cp):
            sh(["coq_makefile", "-f", "_CoqProject", "-o", "Makefile"], cwd=COQ)
        t0 = time.time()
        r = sh(["timeout", "3000", "make", "-j%d" % NPROC], cwd=COQ, check=False, timeout=3100)
        if r.returncode != 0:
            raise BuildError("coq build failed:\n" + r.stdout[-8000:])
        ml = os.path.join(COQ, "model.ml")
        if os.path.exists(ml):
            for ext in ("ml", "mli"):
                shutil.move(os.path.join(COQ, "model." + ext), os.path.join(OCAML, "model." + ext))
        src_ml = os.path.join(OCAML, "model.ml")
        main_ml = os.path.join(OCAML, "main.ml")
        if not os.path.exists(src_ml):
            raise BuildError("extraction did not produce model.ml")
        if (not os.path.exists(MODELRUN)
                or os.path.getmtime(MODELRUN) < max(os.path.getmtime(src_ml), os.path.getmtime(main_ml))):
            sh(["ocamlfind", "ocamlopt", "-O3", "-w", "-a", "model.mli", "model.ml", "main.ml",
                "-o", "modelrun"], cwd=OCAML)
        return time.time() - t0


def ensure_harness():
    """Builds implrun against /repo's current working tree (cargo fingerprints the path deps)."""
    with Lock("cargo"):
        lock = os.path.join(HARNESS, "Cargo.lock")
        if not os.path.exists(lock):
            shutil.copy(os.path.join(REPO, "Cargo.lock"), lock)
        r = sh(["cargo", "build", "--release", "--offline"], cwd=HARNESS, check=False, timeout=3000)
        if r.returncode != 0:
            raise BuildError("harness build failed (does /repo still compile?):\n" + r.stdout[-8000:])
        # the key pool is generated by ONE process, before any sharded run (processes that generated keys side by
        # side once ended up with different pools: false alarms "key id is not a pool key" on a fresh cache)
        if not os.path.exists(os.path.join(CACHE, "keys", "k13.p8")):
            subprocess.run([IMPLRUN], input="[12,1]\n", stdout=subprocess.PIPE, stderr=subprocess.PIPE, text=True,
                           timeout=600, env=ENV)


def ensure_tuftool():
    with Lock("cargo"):
        r = sh(["cargo", "build", "--release", "--offline", "-p", "tuftool",
                "--manifest-path", os.path.join(REPO, "Cargo.toml"), "--target-dir", TARGET],
               cwd=REPO, check=False, timeout=3000)
        if r.returncode != 0:
            raise BuildError("tuftool build failed:\n" + r.stdout[-8000:])


# ------------------------------------------------------------------------------------------------
# running model and implementation

def enc(x):
    """python structure -> nested lists of ints (the case tree)"""
    if isinstance(x, bool):
        return 1 if x else 0
    if isinstance(x, int):
        assert x >= 0
        return x
    if isinstance(x, (bytes, bytearray)):
        return list(x)
    if isinstance(x, str):
        return list(x.encode("utf-8"))
    if x is None:
        return []
    if isinstance(x, (list, tuple)):
        return [enc(y) for y in x]
    raise TypeError(type(x))


def dumps(case):
    return json.dumps(case, separators=(",", ":"))


def _run_lines(cmd, lines, shards, timeout, env=None):
    if not lines:
        return []
    shards = max(1, min(shards, len(lines)))
    chunks = [lines[i::shards] for i in range(shards)]
    procs = []
    for ch in chunks:
        p = subprocess.Popen(cmd, stdin=subprocess.PIPE, stdout=subprocess.PIPE, stderr=subprocess.PIPE,
                             text=True, env=env or ENV)
        procs.append(p)
    # feed all, then collect (inputs are small enough for pipe buffering via communicate in threads)
    import threading
    outs = [None] * shards
    errs = [None] * shards

    def work(i):
        try:
            o, e = procs[i].communicate("\n".join(chunks[i]) + "\n", timeout=timeout)
            outs[i], errs[i] = o, e
        except subprocess.TimeoutExpired:
            procs[i].kill()
            outs[i], errs[i] = "", "timeout"

    ths = [threading.Thread(target=work, args=(i,)) for i in range(shards)]
    for t in ths:
        t.start()
    for t in ths:
        t.join()
    res = [None] * len(lines)
    for i in range(shards):
        got = [l for l in outs[i].split("\n") if l != ""]
        if len(got) != len(chunks[i]):
            raise RunError("runner %s produced %d results for %d cases (rc=%s)\n%s" % (
                cmd[0], len(got), len(chunks[i]), procs[i].returncode, (errs[i] or "")[-3000:]))
        for j, g in enumerate(got):
            res[i + j * shards] = g
    return res


class RunError(Exception):
    pass


def parse_result(line):
    try:
        return json.loads(line)
    except Exception:
        return ["unparsable", line[:200]]


XCHECK = []          # (input line, output line) pairs of the extracted model, re-evaluated inside Coq at the end


def run_model(cases, shards=NPROC, timeout=1800):
    lines = [dumps(c) for c in cases]
    # the extracted model recurses deeply on long inputs
    cmd = ["bash", "-c", "ulimit -s unlimited 2>/dev/null; exec '%s'" % MODELRUN]
    outs = _run_lines(cmd, lines, shards, timeout)
    thorough = os.environ.get("VERIF_TIER") == "thorough"
    if len(XCHECK) < (40 if thorough else 6):
        # a sample of the cases is evaluated again inside Coq at the end of the run (xcheck_extraction): 8 per call
        # in the thorough tier, 3 small ones per call in the quick tier
        small = [(a, b) for a, b in zip(lines, outs) if len(a) < 4000 and len(b) < 2000]
        per = 8 if thorough else 3
        step = max(1, len(small) // per)
        XCHECK.extend(small[::step][:per])
    return [parse_result(l) for l in outs]


def xcheck_extraction():
    """evaluates run_line inside Coq (vm_compute) on the sampled cases and compares with what the extracted OCaml
    program printed: a check of the extraction and of ocaml/main.ml. Returns (info string, failure or None)."""
    if not XCHECK:
        return None, None
    gdir = os.path.join(CACHE, "gate")
    os.makedirs(gdir, exist_ok=True)
    gv = os.path.join(gdir, "XCheck_%d.v" % os.getpid())
    with open(gv, "w") as f:
        f.write("From ToughV Require Import Model.Base Model.Run.\nFrom Coq Require Import NArith List.\nImport ListNotations.\nOpen Scope N_scope.\n")
        for i, (a, b) in enumerate(XCHECK):
            f.write("Goal run_line [%s] = [%s]. Proof. vm_compute. reflexivity. Qed.\n" % (
                ";".join(str(x) for x in a.encode("utf-8")), ";".join(str(x) for x in b.encode("utf-8"))))
    r = sh(["timeout", "900", "coqc", "-noglob", "-Q", COQ, "ToughV", gv], cwd=gdir, check=False)
    for ext in (".v", ".vo", ".vok", ".vos", ".glob"):
        try:
            os.remove(gv[:-2] + ext)
        except OSError:
            pass
    if r.returncode == 0:
        return "%d sampled cases re-evaluated with vm_compute inside Coq: same output as the extracted program" % len(XCHECK), None
    return None, "extraction cross-check failed: " + (r.stdout + r.stderr)[-800:]


def run_impl(cases, shards=NPROC, timeout=1800, env=None):
    lines = [dumps(c) for c in cases]
    return [parse_result(l) for l in _run_lines([IMPLRUN], lines, shards, timeout, env=env)]


def run_impl_isolated(cases, timeout=60, env=None):
    """one process per case (for cases that may abort the process, e.g. by stack overflow, or never
    terminate); a crash or a timeout is a result: ["aborted", returncode] / ["timeout"]"""
    import concurrent.futures

    def one(c):
        try:
            r = subprocess.run([IMPLRUN], input=dumps(c) + "\n", stdout=subprocess.PIPE, stderr=subprocess.PIPE,
                               text=True, timeout=timeout, env=env or ENV)
        except subprocess.TimeoutExpired:
            return ["timeout"]
        got = [l for l in r.stdout.split("\n") if l]
        if r.returncode != 0 or len(got) != 1:
            return ["aborted", r.returncode, r.stderr[-300:]]
        return parse_result(got[0])

    with concurrent.futures.ThreadPoolExecutor(max_workers=NPROC) as ex:
        return list(ex.map(one, cases))


def b2s(b):
    """list of byte values -> readable string for samples"""
    try:
        return bytes(b).decode("utf-8")
    except Exception:
        return repr(bytes(b))


# ------------------------------------------------------------------------------------------------
# proof gate

def pins(pid):
    """pinned statements: the copies taken from the property files (checks/pins.json) and hand-written
    unfolded forms of statements that are stated through a definition (checks/pins_extra.json)"""
    out = [tuple(x) for x in json.load(open(os.path.join(VERIF, "checks", "pins.json"))).get(pid, [])]
    out += [tuple(x) for x in json.load(open(os.path.join(VERIF, "checks", "pins_extra.json"))).get(pid, [])]
    return out


def proof_gate(pid, theorems=None):
    """theorems: list of (name, pinned statement); default: the pinned copies in checks/pins.json. Checks that coq/Properties/<pid>.vo builds, that
    each pinned statement is what the theorem states (Check (name : statement)), and collects Print
    Assumptions. Returns (info dict, list of failure strings)."""
    fails = []
    if theorems is None:
        theorems = pins(pid)
    if not theorems:
        return {"obligations": 0, "discharged": 0, "assumptions": {}}, ["no pinned theorems for " + pid]
    try:
        ensure_coq()
    except BuildError as e:
        return {"obligations": len(theorems), "discharged": 0, "assumptions": {},
                "build_error": str(e)[-3000:]}, ["coq build failed: " + str(e)[-1500:]]
    bad = forbidden_tokens()
    if bad:
        fails.append("forbidden tokens: " + "; ".join(bad[:10]))
    vo = os.path.join(COQ, "Properties", pid + ".vo")
    if not os.path.exists(vo):
        fails.append("Properties/%s.vo missing" % pid)
    gdir = os.path.join(CACHE, "gate")
    os.makedirs(gdir, exist_ok=True)
    gv = os.path.join(gdir, "Gate_%s.v" % pid)
    with open(gv, "w") as f:
        f.write("From ToughV Require Import Properties.%s.\n" % pid)
        f.write("From ToughV Require Import Model.Base.\n")
        for idx, (name, stmt) in enumerate(theorems):
            f.write('Goal True. idtac "@@BEGIN %d %s". Abort.\n' % (idx, name))
            f.write("Check (%s : %s).\n" % (name, stmt))
            f.write('Goal True. idtac "@@ASSUME %d %s". Abort.\n' % (idx, name))
            f.write("Print Assumptions %s.\n" % name)
            f.write('Goal True. idtac "@@END %d %s". Abort.\n' % (idx, name))
    r = sh(["timeout", "600", "coqc", "-noglob", "-Q", COQ, "ToughV", gv], cwd=gdir, check=False)
    out = r.stdout
    assumptions = {}
    discharged = 0
    for idx, (name, stmt) in enumerate(theorems):
        tag = "%d %s" % (idx, re.escape(name))
        m = re.search(r"@@BEGIN %s\n(.*?)@@ASSUME %s\n(.*?)@@END %s" % (tag, tag, tag), out, re.S)
        if not m:
            fails.append("theorem %s: pinned statement does not check (or theorem missing)" % name)
            continue
        ass = m.group(2).strip()
        if ass.startswith("Closed under the global context"):
            assumptions[name] = []
        else:
            names = re.findall(r"^([A-Za-z_][\w.']*)\s*:", ass, re.M)
            assumptions[name] = names
            notallowed = [a for a in names if a not in ALLOWED_AXIOMS]
            if notallowed:
                fails.append("theorem %s depends on axioms outside the allow-list: %s" % (name, notallowed))
                continue
        discharged += 1
    if r.returncode != 0 and not fails:
        fails.append("gate file failed: " + out[-1500:])
    info = {"obligations": len(theorems), "discharged": discharged, "assumptions": assumptions,
            "checker_cmd": "make -C coq (coqc 8.16.1, full .vo) ; coqc .cache/gate/Gate_%s.v "
                           "(Check name : pinned statement ; Print Assumptions name)" % pid}
    if os.environ.get("VERIF_TIER") == "thorough" and not fails:
        # the independent checker re-checks the compiled property file and everything it depends on
        ok, out = coqchk(pid)
        summary = out[out.find("CONTEXT SUMMARY"):] if "CONTEXT SUMMARY" in out else out[-600:]
        clean = ok and "* Axioms: <none>" in summary and "type-in-type: <none>" in summary \
            and "unsafe (co)fixpoints: <none>" in summary and "positivity is assumed: <none>" in summary
        info["coqchk"] = "coqchk -silent -o ToughV.Properties.%s: %s" % (pid, "no axioms, nothing assumed" if clean else summary)
        info["checker_cmd"] += " ; coqchk -silent -o -Q coq ToughV ToughV.Properties.%s" % pid
        if not clean:
            fails.append("coqchk does not accept Properties/%s.vo without axioms: %s" % (pid, summary[-800:]))
    return info, fails


ALLOWED_AXIOMS = {
    "functional_extensionality_dep", "FunctionalExtensionality.functional_extensionality_dep",
    "proof_irrelevance", "ProofIrrelevance.proof_irrelevance",
    "JMeq_eq", "JMeq.JMeq_eq", "Eqdep.Eq_rect_eq.eq_rect_eq", "eq_rect_eq",
    "classic", "Classical_Prop.classic",
}


def coqchk(pid):
    r = sh(["timeout", "1500", "coqchk", "-silent", "-o", "-Q", COQ, "ToughV",
            "ToughV.Properties." + pid], cwd=COQ, check=False, timeout=1600)
    ok = r.returncode == 0
    return ok, r.stdout[-2000:]


# ------------------------------------------------------------------------------------------------
# known findings

def known_findings(pid):
    """finding lines for this property: list of (class, text). fixed: lines suppress nothing."""
    out = []
    p = os.path.join(VERIF, "known_findings.txt")
    if os.path.exists(p):
        for line in open(p):
            line = line.strip()
            m = re.match(r"finding:\s+property=(\S+)\s+class=(\S+)\s+(.*)", line)
            if m and m.group(1) == pid:
                out.append((m.group(2), m.group(3)))
    return out


# ------------------------------------------------------------------------------------------------
# verdict + evidence

class Check:
    """Accumulates what one run of one property's check covered and decides the verdict."""

    def __init__(self, pid, tier, seed):
        self.pid, self.tier, self.seed = pid, tier, seed
        self.t0 = time.time()
        self.rng = random.Random((seed << 8) ^ int(hashlib.sha256(pid.encode()).hexdigest()[:8], 16))
        self.evaluations = 0
        self.nontrivial = set()
        self.samples = []
        self.hist = {}
        self.violations = []   # (kind, description, replay object)
        self.known_hits = {}
        self.proof = None
        self.rule = ""
        self.trusted = list(KERNEL_TB)
        self.assumptions = []
        self.extra = {}
        self.known = dict(known_findings(pid))

    def count(self, key, n=1):
        self.hist[key] = self.hist.get(key, 0) + n

    def seen(self, case, nontrivial=True):
        self.evaluations += 1
        if nontrivial:
            self.nontrivial.add(hashlib.sha1(dumps(case).encode()).digest()[:8])

    def sample(self, s, limit=6):
        if len(self.samples) < limit:
            self.samples.append(s)

    def violation(self, description, replay, known_class=None):
        """A case on which the implementation contradicts the specification."""
        if known_class and known_class in self.known:
            self.known_hits.setdefault(known_class, description)
            return
        self.violations.append(("spec", description, replay))

    def broken(self, what, replay):
        """A proof obligation or the correspondence no longer checks and no failing input was found."""
        self.violations.append(("no-input", what, replay))

    def finish(self, level="proof"):
        os.makedirs(EVIDENCE, exist_ok=True)
        os.makedirs(REPLAY, exist_ok=True)
        wall = time.time() - self.t0
        for cls, desc in self.known_hits.items():
            print("KNOWN-FINDING: property=%s %s (%s)" % (self.pid, self.known[cls], desc))
        # spec violations first; a no-input report only if there is no concrete one
        spec = [v for v in self.violations if v[0] == "spec"]
        noin = [v for v in self.violations if v[0] == "no-input"]
        lines = []
        hist = {}
        for kind, desc, rep in self.violations:
            k = kind + ": " + re.sub(r"[0-9]+", "N", desc)[:110]
            hist[k] = hist.get(k, 0) + 1
        for k, v in sorted(hist.items(), key=lambda kv: -kv[1])[:25]:
            log("  [%d x] %s" % (v, k))
        for i, (kind, desc, rep) in enumerate(spec[:5]):
            path = os.path.join(REPLAY, "%s-%d-%d.json" % (self.pid, self.seed, i))
            json.dump({"property": self.pid, "kind": "failing-input", "what": desc, "replay": rep},
                      open(path, "w"), indent=1)
            lines.append("VIOLATION property=%s replay=%s" % (self.pid, path))
            log("  " + desc)
        if not spec:
            for i, (kind, desc, rep) in enumerate(noin[:5]):
                path = os.path.join(REPLAY, "%s-%d-broken-%d.json" % (self.pid, self.seed, i))
                json.dump({"property": self.pid, "kind": "no-failing-input-found",
                           "no_longer_checks": desc, "detail": rep}, open(path, "w"), indent=1)
                lines.append("VIOLATION property=%s replay=%s no-failing-input-found" % (self.pid, path))
                log("  " + desc)
        xinfo, xfail = xcheck_extraction()
        if xfail:
            self.broken(xfail, {"xcheck": xfail})
            noin = [v for v in self.violations if v[0] == "no-input"]
            if not spec:
                i = len(lines)
                path = os.path.join(REPLAY, "%s-%d-broken-x.json" % (self.pid, self.seed))
                json.dump({"property": self.pid, "kind": "no-failing-input-found", "no_longer_checks": xfail}, open(path, "w"), indent=1)
                lines.append("VIOLATION property=%s replay=%s no-failing-input-found" % (self.pid, path))
        cov = {
            "evaluations": self.evaluations,
            "distinct_nontrivial": len(self.nontrivial),
            "rule": self.rule,
            "samples": self.samples or ["(no cases run)"],
            "input_distribution": self.hist,
            "trusted_base": self.trusted,
        }
        if self.proof:
            cov["obligations"] = self.proof["obligations"]
            cov["discharged"] = self.proof["discharged"]
            cov["checker_cmd"] = self.proof.get("checker_cmd", "make -C coq")
            if "coqchk" in self.proof:
                cov["coqchk"] = self.proof["coqchk"]
        if xinfo:
            cov["extraction_cross_check"] = xinfo
            cov["print_assumptions"] = {k: (v or "Closed under the global context")
                                        for k, v in self.proof.get("assumptions", {}).items()}
        cov.update(self.extra)
        ev = {"property_id": self.pid, "tier": self.tier, "seed": self.seed, "level": level,
              "coverage": cov, "assumptions": self.assumptions, "wall_s": round(wall, 2),
              "violations": len(lines)}
        json.dump(ev, open(os.path.join(EVIDENCE, self.pid + ".json"), "w"), indent=1)
        for l in lines:
            print(l)
        sys.stdout.flush()
        return 1 if lines else 0


def compare(chk, cases, model_res, impl_res, describe, on_diff):
    """Generic correspondence loop: on_diff(case, m, i) decides whether a disagreement is a
    specification violation (calls chk.violation) or a mere correspondence break."""
    ndiff = 0
    for c, m, i in zip(cases, model_res, impl_res):
        if m != i:
            ndiff += 1
            on_diff(c, m, i)
    return ndiff
