"""Helpers for the editor-family checks (C10, C17, C19): building initial repositories with the
concretiser, describing editing programs, abstracting metadata JSON into views."""
import hashlib
import json
from lib import common as C, scen


def canon_id(v):
    """identity of a JSON value up to member order"""
    return hashlib.sha256(json.dumps(v, sort_keys=True, separators=(",", ":")).encode()).hexdigest()[:16]


def parse_files(files):
    out = {}
    for name, text in files.items():
        try:
            out[name] = json.loads(text)
        except Exception:
            out[name] = None
    return out


KNOWN = {
    "targets": {"_type", "spec_version", "version", "expires", "targets", "delegations"},
    "snapshot": {"_type", "spec_version", "version", "expires", "meta"},
    "timestamp": {"_type", "spec_version", "version", "expires", "meta"},
}


def extras(signed, kind):
    return {k: v for k, v in signed.items() if k not in KNOWN[kind]}


def role_file(files, role, cs):
    """the metadata file of a role in a directory listing (highest version prefix under consistent snapshots)"""
    cands = []
    for name in files:
        base = name
        ver = 0
        parts = name.split(".", 1)
        if cs and parts[0].isdigit() and len(parts) == 2:
            ver, base = int(parts[0]), parts[1]
        if base == role + ".json":
            cands.append((ver, name))
    return max(cands)[1] if cands else None


def repo_with_extras(s, rng, cs, n_targets, delegated, extras_on=True):
    """initial repository (documents + file map + target files) carrying unknown top-level members in
    targets, snapshot and timestamp, custom data on targets, and optionally a delegated role A (key 7)
    with its own targets and a nested role B (key 8)"""
    tfiles = []
    def entries(prefix, k):
        out = []
        for i in range(k):
            name = "%s%d.txt" % (prefix, i)
            content = "%s-content-%d" % (prefix, i)
            e = {"name": name, "content": content}
            if rng.random() < 0.5:
                e["custom"] = {"note": "c%d" % i, "n": [i, {"x": None}]}
            out.append(e)
            hx = hashlib.sha256(content.encode()).hexdigest()
            tfiles.append({"name": (hx + "." if cs else "") + name, "content": content})
        return out
    x = (lambda tag: {"x-" + tag: {"keep": [1, "two", None]}, "y-" + tag: 7}) if extras_on else (lambda tag: {})
    r = s.root(cs=cs)
    dl = []
    deleg = None
    if delegated:
        b = s.targets(version=2, targets=entries("a/b/", rng.choice([1, 2, 3])), sigs=scen.valid([8]), extra=x("b"))
        a = s.targets(version=3, targets=entries("a/", 2), sigs=scen.valid([7]), extra=x("a"),
                      delegations={"keys": [8], "roles": [{"name": "B", "keyids": [8], "threshold": 1, "paths": ["a/b/*"],
                                                           "terminating": rng.random() < 0.3}]})
        dl = [("A", 3, a), ("B", 2, b)]
        zeta = None
        if rng.random() < 0.6:
            # a sibling listed BEFORE A although its name sorts after it, with overlapping paths: the order of the
            # delegations is the order of trust and must survive an update
            # ... and, half of the time, Zeta delegates to B as well: B is then reached along two paths (one file, one
            # snapshot entry, loaded twice); an update must leave such a repository loadable
            diamond = rng.random() < 0.5
            zeta = s.targets(version=4, targets=entries("z/", 1), sigs=scen.valid([7]), extra=x("zeta"),
                             **({"delegations": {"keys": [8], "roles": [{"name": "B", "keyids": [8], "threshold": 1,
                                                                         "paths": ["a/b/*"]}]}} if diamond else {}))
            dl.append(("Zeta", 4, zeta))
        # the "terminating" flag of a delegation is data to carry over: it must not change what an update writes
        term = rng.random() < 0.5
        deleg = {"keys": [7], "roles": ([{"name": "Zeta", "keyids": [7], "threshold": 1, "paths": ["z/*", "a/*"]}] if zeta else [])
                                       + [{"name": "A", "keyids": [7], "threshold": 1, "paths": ["a/*"], "terminating": term}]}
    tgt = s.targets(version=1, targets=entries("t", n_targets), delegations=deleg, extra=x("targets"))
    metas = {"targets.json": scen.meta(tgt, 1)}
    for name, v, d in dl:
        metas[name + ".json"] = scen.meta(d, v)
    snap = s.snapshot(version=1, meta=metas, extra=x("snapshot"))
    ts = s.timestamp(version=1, meta={"snapshot.json": scen.meta(snap, 1)}, extra=x("timestamp"))
    files = scen.top_files(cs, ts, snap, 1, tgt, 1, delegated=dl)
    files["1.root.json"] = {"doc": r}
    return r, files, tfiles
