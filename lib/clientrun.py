"""Runs client scenarios (lib/scen.py) through the implementation and the model and compares."""
import copy
import json
from lib import common as C, scen


def names(log):
    return [C.b2s(x) for x in log]


def run_scenarios(chk, scens, isolated=False):
    """scens: list of scen.Scen. Returns list of (impl_results, model_results) per scenario (each a
    list with one entry per cycle: [result, log, store])."""
    cases = [s.case() for s in scens]
    out = C.run_impl_isolated(cases) if isolated else C.run_impl(cases)
    impl, mcases = [], []
    for o in out:
        if not (isinstance(o, list) and len(o) == 2):
            impl.append(o)
            mcases.append([6, 0, scen.FIXED, []])
        else:
            impl.append([x[:3] + [[scen.canon_op(y) for y in x[3]]] if len(x) > 3 else x for x in o[0]])
            mcases.append(o[1])
    mres = C.run_model(mcases)
    model = [[scen.canon_result(x) for x in m] if isinstance(m, list) else m for m in mres]
    return list(zip(impl, model, mcases))


def warm_variant(s):
    """the same single-cycle scenario run on a datastore that an earlier successful cycle has filled: a cycle against
    a plain valid repository (versions 1, signed with the keys the shipped root lists) is put in front. Returns None
    when the scenario does not qualify."""
    if len(s.cycles) != 1:
        return None
    cy = s.cycles[0]
    root = s.docs.get(cy.get("shipped"))
    if not isinstance(root, dict) or root.get("type") != "root":
        return None
    roles = root.get("roles", {})
    if not all(k in roles and roles[k][0] for k in ("snapshot", "targets", "timestamp")):
        return None
    w = scen.Scen(fixes=s.fixes)
    w.docs = copy.deepcopy(s.docs)
    signers = {k: list(roles[k][0][:max(1, roles[k][1])]) for k in ("snapshot", "targets", "timestamp")}
    _, files = scen.simple_repo(w, cs=bool(root.get("cs")), versions=(1, 1, 1, 1), root=cy["shipped"], signers=signers,
                                targets=[{"name": "warm.txt", "content": "earlier"}])
    w.cycle(cy["shipped"], files)
    w.cycles.append(copy.deepcopy(cy))
    return w


def warm_correspondence(chk, scens, every=4, limit=400):
    """runs every [every]-th qualifying scenario in its warm-datastore variant through implementation and model and
    reports any difference: what a cycle does must not depend on stored documents in any way the model does not
    describe (whatever the check's own oracle looks at)"""
    picked = []
    for i, s in enumerate(scens):
        if i % every == 0 and len(picked) < limit:
            w = warm_variant(s)
            if w is not None:
                picked.append(w)
    if not picked:
        return
    for w, (impl, model, mcase) in zip(picked, run_scenarios(chk, picked)):
        chk.count("warm-datastore-variant")
        if isinstance(impl, list) and len(impl) == 2 and impl[0][0][0] == 0:
            chk.count("warm-datastore-variant-first-cycle-ok")
        check_correspondence(chk, w, impl, model, "client workflow (same scenario after an earlier successful cycle)")


def show_cycle(res):
    r, log, store = res[:3]
    d = {"result": r, "requests": names(log), "datastore[root,timestamp,snapshot,targets]": store}
    if len(res) > 3 and res[3]:
        d["operations"] = [show_op(o) for o in res[3]]
    return d


def show_op(o):
    if o[0] == 1:
        return {"read": "stream", "requested": [o[1][0], C.b2s(o[1][1])], "delivered": C.b2s(o[2])[:80],
                "delivered_len": len(o[2]), "ended_ok": o[3], "first_error": {0: None, 1: "transport", 2: "max-size", 3: "hash-mismatch"}.get(o[4], o[4])}
    if o[0] == 3:
        return {"save": o[1], "files": [["/".join(C.b2s(c) for c in p), len(b)] for p, b in o[2]]}
    return o


def describe(s, impl, model):
    return {"scenario": s.case(), "implementation": [show_cycle(x) for x in impl] if isinstance(impl, list) else impl,
            "model": [show_cycle(x) for x in model] if isinstance(model, list) else model}


def check_correspondence(chk, s, impl, model, what="client workflow"):
    """returns True when model and implementation agree on every cycle"""
    if impl != model:
        chk.broken("correspondence: model of the %s differs from the implementation" % what,
                   describe(s, impl, model))
        return False
    return True
