"""Runs client scenarios (lib/scen.py) through the implementation and the model and compares."""
import json
from lib import common as C, scen


def names(log):
    return [C.b2s(x) for x in log]


def run_scenarios(chk, scens, isolated=False):
    """scens: list of scen.Scen. Returns list of (impl_results, model_results) per scenario (each a
    list with one entry per cycle: [result, log, store])."""
    cases = [s.case() for s in scens]
    out = C.run_impl_isolated(cases) if isolated else C.run_impl(cases)
    impl, mcases = [], []
    for o in out:
        if not (isinstance(o, list) and len(o) == 2):
            impl.append(o)
            mcases.append([6, 0, scen.FIXED, []])
        else:
            impl.append([x[:3] + [[scen.canon_op(y) for y in x[3]]] if len(x) > 3 else x for x in o[0]])
            mcases.append(o[1])
    mres = C.run_model(mcases)
    model = [[scen.canon_result(x) for x in m] if isinstance(m, list) else m for m in mres]
    return list(zip(impl, model, mcases))


def show_cycle(res):
    r, log, store = res[:3]
    d = {"result": r, "requests": names(log), "datastore[root,timestamp,snapshot,targets]": store}
    if len(res) > 3 and res[3]:
        d["operations"] = [show_op(o) for o in res[3]]
    return d


def show_op(o):
    if o[0] == 1:
        return {"read": "stream", "requested": [o[1][0], C.b2s(o[1][1])], "delivered": C.b2s(o[2])[:80],
                "delivered_len": len(o[2]), "ended_ok": o[3], "first_error": {0: None, 1: "transport", 2: "max-size", 3: "hash-mismatch"}.get(o[4], o[4])}
    if o[0] == 3:
        return {"save": o[1], "files": [["/".join(C.b2s(c) for c in p), len(b)] for p, b in o[2]]}
    return o


def describe(s, impl, model):
    return {"scenario": s.case(), "implementation": [show_cycle(x) for x in impl] if isinstance(impl, list) else impl,
            "model": [show_cycle(x) for x in model] if isinstance(model, list) else model}


def check_correspondence(chk, s, impl, model, what="client workflow"):
    """returns True when model and implementation agree on every cycle"""
    if impl != model:
        chk.broken("correspondence: model of the %s differs from the implementation" % what,
                   describe(s, impl, model))
        return False
    return True
