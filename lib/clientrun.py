"""Runs client scenarios (lib/scen.py) through the implementation and the model and compares."""
import json
from lib import common as C, scen


def names(log):
    return [C.b2s(x) for x in log]


def run_scenarios(chk, scens, isolated=False):
    """scens: list of scen.Scen. Returns list of (impl_results, model_results) per scenario (each a
    list with one entry per cycle: [result, log, store])."""
    cases = [s.case() for s in scens]
    out = C.run_impl_isolated(cases) if isolated else C.run_impl(cases)
    impl, mcases = [], []
    for o in out:
        if not (isinstance(o, list) and len(o) == 2):
            impl.append(o)
            mcases.append([6, 0, scen.FIXED, []])
        else:
            impl.append(o[0])
            mcases.append(o[1])
    mres = C.run_model(mcases)
    model = [[scen.canon_result(x) for x in m] if isinstance(m, list) else m for m in mres]
    return list(zip(impl, model, mcases))


def show_cycle(res):
    r, log, store = res
    return {"result": r, "requests": names(log), "datastore[root,timestamp,snapshot,targets]": store}


def describe(s, impl, model):
    return {"scenario": s.case(), "implementation": [show_cycle(x) for x in impl] if isinstance(impl, list) else impl,
            "model": [show_cycle(x) for x in model] if isinstance(model, list) else model}


def check_correspondence(chk, s, impl, model, what="client workflow"):
    """returns True when model and implementation agree on every cycle"""
    if impl != model:
        chk.broken("correspondence: model of the %s differs from the implementation" % what,
                   describe(s, impl, model))
        return False
    return True
