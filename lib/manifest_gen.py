"""Writes MANIFEST.json from the table below (kept in one place so the file is always valid)."""
import json, os, sys
sys.path.insert(0, os.path.dirname(os.path.dirname(os.path.abspath(__file__))))

BASELINE_OFF = ("cd /repo && cargo nextest run --workspace --no-fail-fast --test-threads 8 --offline "
                "|| cargo test --workspace --no-fail-fast --offline")

NOTE = ("Trusted base: Coq 8.16.1 kernel; hand-written Gallina model tied to /repo by a correspondence check "
        "run on every invocation (extracted model via ExtrOcamlBasic only, no Extract Constant; Rust harness "
        "with path dependencies on /repo/tough and /repo/olpc-cjson); no axioms declared; see DESIGN.md section 2.")

CHECKS = {
    # pid: (technique, level text, level note, design ref)
    "C11": ("Coq proof that the CanonicalFormatter state machine (driven by serde_json's event sequence) computes the "
            "recursive OLPC specification; order-independence and sortedness theorems; differential correspondence "
            "and independent Python specification oracle",
            "Theorems for all JSON values (any depth, any strings) about the Gallina model of the formatter; model "
            "tied to the code by running both on exhaustive key sets over the property's 8-character alphabet and "
            "random values (control characters, combining characters, integer extremes, floats); an independent "
            "Python implementation of OLPC canonical JSON is the oracle that turns a correspondence break into a "
            "failing input. Partial: the injectivity clause is searched for collisions, not yet proved.",
            NOTE + " Modelled not verified: serde_json's Serializer event order and string splitting, Unicode NFC "
            "(parameter with hypotheses nfc_ok, tested against unicodedata).", "5/C11"),
    "C16": ("Coq proof of injectivity/plain-entry of the file-name function + exhaustive/random differential "
            "correspondence with DelegatedTargets::filename",
            "Theorems (all role names, all versions, both consistent-snapshot settings) on the Gallina model of "
            "encode_filename/filename; model tied to the code by running both on every name up to length 3 (4 "
            "thorough) over the property's alphabet plus random names to length 64; independent injectivity and "
            "plain-entry oracle on the implementation's own outputs.",
            NOTE + " Modelled not verified: percent_encoding crate, Url::join on such segments.", "5/C16"),
}

PENDING_REASON = "check not yet built in this revision of /verif (design exists in DESIGN.md section 5); no claim made"


def main():
    here = os.path.dirname(os.path.dirname(os.path.abspath(__file__)))
    props = [json.loads(l)["id"] for l in open(os.path.join(here, "properties.jsonl"))]
    checks = []
    for pid in props:
        if pid not in CHECKS:
            continue
        tech, text, note, ref = CHECKS[pid]
        checks.append({
            "property_id": pid,
            "quick_cmd": "./tv check %s --tier quick" % pid,
            "thorough_cmd": "./tv check %s --tier thorough" % pid,
            "evidence_file": "/verif/evidence/%s.json" % pid,
            "replay_cmd_template": "./tv replay %s {path}" % pid,
            "engine": "coq+correspondence",
            "level_claimed": {"category": "proof", "text": text, "design_ref": "DESIGN.md section " + ref},
            "level_note": note,
            "technique": tech,
        })
    man = {
        "version": 1,
        "setup_cmd": "./tv setup",
        "hooks": {
            "guard": "cargo feature verif-hooks on crate tough",
            "enable": "harness/Cargo.toml depends on tough with features = [\"http\", \"verif-hooks\"]",
            "baseline_off_cmd": BASELINE_OFF,
            "source_commits": ["3988d04"],
            "add_only": True,
        },
        "engines": [{
            "name": "coq+correspondence", "path": "/verif/coq, /verif/harness, /verif/checks",
            "serves_properties": sorted(CHECKS),
            "kind_free_text": "machine-checked Coq 8.16 theorems about a hand-written Gallina model; model executed "
                              "(extraction) against the implementation on generated inputs on every run",
        }],
        "checks": checks,
        "not_applicable": [{"property_id": p, "reason": PENDING_REASON} for p in props if p not in CHECKS],
        "notes": "Driver: ./tv. Known findings: known_findings.txt. Seeded mutants: seeded/.",
    }
    json.dump(man, open(os.path.join(here, "MANIFEST.json"), "w"), indent=1)


if __name__ == "__main__":
    main()
