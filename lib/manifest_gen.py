"""Writes MANIFEST.json from the table below (kept in one place so the file is always valid)."""
import json, os, sys
sys.path.insert(0, os.path.dirname(os.path.dirname(os.path.abspath(__file__))))

BASELINE_OFF = ("cd /repo && cargo nextest run --workspace --no-fail-fast --test-threads 8 --offline "
                "|| cargo test --workspace --no-fail-fast --offline")

NOTE = ("Trusted base: Coq 8.16.1 kernel; hand-written Gallina model tied to /repo by a correspondence check "
        "run on every invocation (extracted model via ExtrOcamlBasic only, no Extract Constant; Rust harness "
        "with path dependencies on /repo/tough and /repo/olpc-cjson); no axioms declared; see DESIGN.md section 2.")

CLIENT = ("Gallina model of the update workflow (load_root ... load_delegations, Datastore) over abstract documents with "
          "symbolic signatures; tied to the code on every run by concretising generated scenarios into really signed "
          "repositories, running RepositoryLoader::load over a scripted in-memory transport and a real datastore directory, "
          "and comparing result class, trusted versions, request log and datastore summary with the extracted model; an "
          "independent Python oracle states the property on the implementation's own results. ")
MODELLED = (" Modelled not verified: serde/serde_json parsing of metadata (a served file is abstracted by the harness that built "
            "it), real signature schemes (symbolic), SHA-256 (digest identities), Url::join, tokio/reqwest.")

CHECKS = {
    # pid: (technique, level text, level note, design ref)
    "C01": ("Coq proof: threshold loop = cardinality of the set of distinct authorised valid signers (sound and complete), "
            "no-credit lemmas; differential correspondence over 8 verification sites",
            CLIENT + "Theorems: verify_role accepts iff >= threshold distinct authorised keys present in the key table have a "
            "valid signature, for all tables/lists/thresholds; top-level sites of a successful cycle verified under the final "
            "root (C02_final_root_only); every delegated role loaded by a successful cycle, at any depth, verified under the "
            "key table and role entry of the delegations of its parent (C01_delegated_sites, C01_delegated_site_spec, through "
            "the functional specification of the recursive loader). Signature lists of all 8 kinds at depth 1 and 2 in "
            "the correspondence runs.",
            NOTE + MODELLED, "5/C01"),
    "C02": ("Coq proof of the chain/stop/forward-only properties of the root walk by induction on the walk; differential "
            "correspondence over chains with every kind of broken hop",
            CLIENT + "Theorems: a successful cycle's root is reached from the shipped root through hops each verified under the "
            "previous and under its own root keys with strictly increasing versions; the walk's requests are consecutive and "
            "stop at the first unavailable version; conversely any valid chain the server serves is followed to its end "
            "(C02_chain_followed); a shipped root that fails self-verification is refused before any request; "
            "timestamp, snapshot and targets verify under the final root.", NOTE + MODELLED, "5/C02"),
    "C03": ("Coq proof by invariant over arbitrary histories of cycles (induction on the history, frame lemmas per step); "
            "differential correspondence over 2-4 cycle histories with an independent oracle",
            CLIENT + "Theorems for all histories, all datastores, all faults: versions of timestamp/snapshot/listed-targets "
            "(resp. targets) never decrease between two successful cycles unless some cycle in between ended its root walk "
            "with a root that authorises the online roles (resp. targets) differently; pre-repair statement refuted (F5). "
            "Known finding: root withholding (see known_findings.txt). No lock-out (C03_never_locked_out): after any "
            "history, an uninterrupted cycle succeeds against every repository that is valid under the root its walk ends "
            "with and not older than any document the datastore held or earlier cycles were served (delegated trees "
            "included), with a non-vacuity example.", NOTE + MODELLED, "5/C03"),
    "C04": ("Coq proofs about the expiry/clock checks of the cycle and of read_target; correspondence with the clock moved "
            "through the verif-hooks offset",
            CLIENT + "Theorems: success under enforcement implies the final root, timestamp, snapshot and targets are unexpired; "
            "a clock earlier than the recorded time makes cycle and read fail; with enforcement off no failure has a time "
            "cause (all code variants); expiry is only reported for expired documents; read_target succeeds only strictly "
            "before the earliest of the four expirations; conversely only those four expirations can stop an uninterrupted "
            "cycle against a valid repository - stepping-stone roots and delegated roles are not asked for theirs "
            "(C04_only_these_expirations_matter, with an expired stepping stone evaluated in C04_expired_stepping_stone).",
            NOTE + MODELLED + " One clock sample per operation in the model.", "5/C04"),
    "C05": ("Coq proof that each accepted file is the one served under the pinned name with the pinned version, digest and "
            "length bound; differential correspondence over all cross-combinations of three repository states",
            CLIENT + "Theorems: snapshot and targets of a successful cycle have exactly the listed version, the listed digest when "
            "listed, a length within the listed length or configured limit, and were requested under the version-prefixed name "
            "under consistent snapshots; every delegated role loaded, at any depth, is listed in the snapshot, has the listed "
            "version, the listed digest when listed, and a length within the listed length or configured limit "
            "(C05_delegated_pinned). Correspondence and oracle over 81 combinations x pins x variants.", NOTE + MODELLED, "5/C05"),
    "C06": ("Coq proofs about max_size_adapter/DigestAdapter/consumer as list transformers, for all streams; end-to-end "
            "correspondence through Repository::read_target",
            "Theorems for every stream (every chunking, every prefix of an endless stream): a stream that ends without error "
            "delivered bytes hashing to the signed digest, never more than the signed length reaches the caller, the signed "
            "content is delivered in any chunking, anything else ends in an error; read_target yields not-found without an "
            "authorised entry and requests the digest-prefixed file under consistent snapshots. Tied to the code by reading "
            "real targets (0-64 KiB, corrupted in 6 ways) through the scripted transport.",
            NOTE + " SHA-256 uninterpreted (H); limits below 2^64-1.", "5/C06"),
    "C07": ("Coq proofs: glob matcher = inductive wildcard matching; find_target = first authorised entry in pre-order by "
            "induction over the role tree; validate; correspondence through the public schema API and signed repositories",
            "Theorems for all patterns/names and all delegation trees (any depth/fan-out): the matcher is wildcard matching "
            "('*' any string, '?' any character, across '/'); find_target returns the head of the pre-order list of "
            "authorised entries, hence only entries reached through chains of matching delegations; a validated tree lists "
            "no name without an authorised entry. Tied to the code by Delegations::target_is_delegated on all pattern/name "
            "pairs of length <=3 (4), Targets::find_target / targets_iter on random trees judged by an independent Python "
            "lookup, and signed repositories loaded end to end.",
            NOTE + " Modelled not verified: globset (only the alphabet literal, '*', '?'; '**', classes, braces, escapes are "
            "outside the model and the generators).", "5/C07"),
    "C08": ("Coq proofs about clean_name, the path check and the file-system step list; exhaustive/random correspondence for "
            "names, end-to-end save_target runs with directory listings and an in-transfer observer",
            "Theorems: accepted names resolve to non-empty sequences of normal components; a destination that passes the check "
            "is strictly inside outdir and made of normal components (both prefix modes); after any prefix of the save steps "
            "the files are untouched or (only at the end, only if the verified stream ended without error) differ by dest := "
            "received bytes; no other path is touched. Tied to the code by TargetName::new on all names to length 4/5 over the "
            "property's alphabet and by real saves into a sentinel directory (listing after, observation during).",
            NOTE + " rename(2) atomicity, absence of symlinks and NamedTempFile clean-up are observed, not proved.", "5/C08"),
    "C09": ("Coq proofs of the byte bound of every accepted file and of the newer-root request bound; correspondence over "
            "limit settings, endless streams, long chains, cyclic and DAG delegations (risky cases one per process)",
            CLIENT + "Theorems: a fetch succeeds only within its limit and with the expected digest, a size refusal only hits "
            "streams that exceed the limit; at most max_root_updates newer roots are requested for every limit up to 2^64-1 "
            "(pre-repair overflow refuted); termination (C09_cycle_terminates): the recursion of the delegation loader is "
            "never deeper than the number of entries of the trusted snapshot and the walk makes at most max_root_updates "
            "hops, so the model's fuel is never exhausted and every cycle ends with success or an error, whatever the "
            "server serves; requests (C09_requests): at most max_root_updates newer roots, three top-level files, and files "
            "of delegated roles listed in the snapshot, at most as many as its entries when none is requested twice "
            "(a role reachable along two paths is requested once per path: known finding shared_delegate, F15). "
            "Correspondence over self/mutual delegation, cycles with leaf siblings, random cyclic graphs, DAGs.",
            NOTE + MODELLED, "5/C09"),
    "C10": ("Coq proof of editor-then-client = identity for repositories without delegated roles and with a tree of "
            "delegated roles of any shape and depth (composition of the editor's sign/write model with the client model), "
            "meta-exactness, threshold and incoming-metadata lemmas; random editing programs through the real editor API, "
            "written to disk and loaded by the real client",
            "Theorems: if the editor's sign step succeeds the client (same root) loads exactly the targets/snapshot/timestamp "
            "the editor built, for all entries, versions, key sets, lengths/digests, both settings - without delegated roles "
            "(C10_roundtrip_partial) and with a tree of delegated roles of any depth, each with its own keys, threshold, paths, "
            "version, expiration and entries (C10_roundtrip_delegated: the loaded targets document carries the whole tree, "
            "C10_loaded_tree_exact), under explicit conditions on role names (pairwise distinct over the tree; not "
            "<root version+1>.root when file names carry no version) which are shown necessary by C10_distinct_names_refuted "
            "and C10_next_root_name_refuted; snapshot and timestamp describe the written files exactly, every delegated role's "
            "file included (C10_meta_exact, C10_meta_exact_delegated); signing needs the threshold, for delegated roles under the "
            "delegating role (C10_delegated_sign_checked); incoming role metadata is incorporated only with a threshold of "
            "distinct authorised signatures and a version not lower. The editing operations themselves (new, from_repo, "
            "add/remove/clear targets, versions and expirations, delegate_role, sign_targets_editor, change_delegated_targets, "
            "sign) are a Gallina state machine (Model/EdOps.v, following RepositoryEditor and TargetsEditor branch by branch): "
            "any program whose final sign succeeds is loaded back (C10_program_roundtrip; refused calls change nothing; the "
            "name premises are premises about the program's delegate_role calls, C10_roles_come_from_program), the two target "
            "maps of a TargetsEditor refine one abstract map (C10_edit_refines_map) and the client finds in the top-level role "
            "exactly that map after the operations made on it (C10_program_targets_seen) and the versions and expirations set last "
            "(C10_program_settings_seen); a delegated role edited by its holder ends up in the tree with exactly the map after "
            "the holder's operations (C10_role_edit_seen); signing a role back into the tree "
            "changes that role and nothing any other role says itself (C10_role_update_sets, C10_role_update_frame). The "
            "cross-party flow is an operation of the same state machine (the holder of a delegated role edits and signs "
            "elsewhere, update_delegated_targets: accepted only with the delegating role's threshold of distinct authorised "
            "signatures and a version not lower, the role then holds the incoming document, C10_update_checked) and programs "
            "containing it are covered by C10_program_roundtrip (C10_cross_party_example). Publication against download from a local repository (Model/Url.v: "
            "Path::join of the file name on the output directory; Url::join on the targets base URL as the url crate's parser "
            "performs it, FilesystemTransport opening the URL path as it stands): for every plain file name the file that is "
            "opened is the file that was put, whatever else the directory holds (C10_published_target_found, "
            "C10_published_target_undisturbed); the complement of the Coq predicate url_plain is the known class "
            "url_encoded_target_name (C10_url_known_class_witnesses: not found, encoded dots leave the directory, a question "
            "mark cuts the name, a colon makes it a URL); url_join and put-then-fetch are compared with the url crate, a real "
            "directory and the real FilesystemTransport on about 3 300 names per run (thorough: 80 000); whatever TargetName::new "
            "makes of a relative name over the unreserved characters and '/' is plain, alone and behind the hex digest "
            "(C10_safe_names_are_plain, also run on the real code); a file planted where the percent-decoded spelling of a name "
            "points is never what a request for the encoded name gets (decoded twins). Not modelled: update_delegated_targets "
            "on the top-level role or bringing new delegated roles, add_role, the digest check and the copy/symlink choice of "
            "target_path; these, odd names, "
            "copy/symlink publication are covered by the correspondence runs with an independent Python tracker of what was "
            "put in. Known finding: url_encoded_target_name.",
            NOTE + MODELLED + " The Gallina models of sign + write (ed_sign, ed_sign_tree) are executed on every run against "
            "the files the real editor wrote: the model's input is what the program put in (a Python interpreter of the editing "
            "operations: per role its header, keys, threshold, paths, parent, version, expiration, targets, offered signing keys), "
            "its answer is compared with every written role file (version, expiration, entries, delegation headers, key tables, "
            "signers), the tree as a client resolves it, snapshot and timestamp entries with the lengths and digests of the "
            "written files, and the file names; refusals of sign (inadequate key sets, under-signed delegated role, reserved "
            "role name, target outside the delegated paths) against refusals of the model. The model of the editing "
            "operations (ed_run) is executed on every program: its answer per call (accepted / refused) is compared with the "
            "real editor's, and the state it reaches at every sign call with the tracker's, which is what ed_sign_tree is then "
            "run on.", "5/C10"),
    "C11": ("Coq proof that the CanonicalFormatter state machine (driven by serde_json's event sequence) computes the "
            "recursive OLPC specification; order-independence and sortedness theorems; differential correspondence "
            "and independent Python specification oracle",
            "Theorems for all JSON values (any depth, any strings) about the Gallina model of the formatter; model "
            "tied to the code by running both on exhaustive key sets over the property's 8-character alphabet and "
            "random values (control characters, combining characters, integer extremes, floats); an independent "
            "Python implementation of OLPC canonical JSON is the oracle that turns a correspondence break into a "
            "failing input. Injectivity (C11_only_of_it): for every normalisation function and all values, two values have "
            "the same canonical form iff they agree after normalising strings and names and sorting members at every "
            "depth; collisions are also searched for in the runs.",
            NOTE + " Modelled not verified: serde_json's Serializer event order and string splitting, Unicode NFC "
            "(parameter with hypotheses nfc_ok, tested against unicodedata).", "5/C11"),
    "C13": ("Coq proofs about deserialize_keys (sound, complete, refuses any wrong or repeated identifier), hex and DER "
            "(SubjectPublicKeyInfo) codecs; correspondence through serde parsing of root/delegations key tables and Decoded<T>",
            "Theorems for all key tables: a table parses iff every identifier text decodes (either hex case) to the digest of "
            "its key and no identifier repeats; every parsed entry is attributed to the digest of its key; hex and DER "
            "round-trips for all byte strings. Tied to the code by parsing root.json / delegations documents with one "
            "identifier altered in 10 ways (all key types, extra members), by Decoded<Hex|RsaPem|EcdsaPem> on random bytes, and "
            "by key-id stability over re-serialise/re-parse.",
            NOTE + " SHA-256 and the key's canonical form are supplied by the harness (canonical JSON is C11's subject); the "
            "PEM armour/base64 layer and aws-lc's DER reader are exercised, not modelled beyond well-formed input and simple "
            "corruptions.", "5/C13"),
    "C14": ("Coq proofs: rotation clears stored timestamp/snapshot, no stored version constrains afterwards, unrotated roles "
            "keep protecting (C03's invariant); correspondence over inflated versions up to 2^63",
            CLIENT + "Theorems: when the walk ends with a root whose timestamp or snapshot key list differs from the previously "
            "trusted root's, both stored files are gone before step 2 and no 'older metadata' refusal can follow from stored "
            "timestamp/snapshot; otherwise C03's monotonicity holds; end to end (C14_recovery): after any history, once "
            "nothing known verifies under the new root for timestamp and snapshot, every valid repository under it is "
            "loaded whatever its timestamp/snapshot versions.", NOTE + MODELLED, "5/C14"),
    "C15": ("Coq proof: C03's invariant with an arbitrary fault (kill before/in/after, failed write) on any datastore write of "
            "any cycle; real processes with strace SIGKILL/ENOSPC injection at every datastore system call",
            "Theorems: rollback protection for all histories with all fault positions and kinds; a write is all-or-nothing "
            "with write-to-temporary-and-rename; truncate-and-write refuted (F9). Tied to the code by running the client in "
            "real processes under strace, killing it at every write/rename/unlink or failing the call with ENOSPC, then "
            "loading replayed-older and current repositories on copies of the datastore, and comparing with the model run on "
            "the matching (operation, fault). Never locked out after a fault: every stored document was in the initial "
            "datastore or was served to an earlier cycle, whatever was interrupted (C15_store_provenance), hence the next "
            "uninterrupted cycle against a valid repository at least as new succeeds (C15_never_locked_out).",
            NOTE + " Process death only (page cache survives); rename(2) atomicity assumed.", "5/C15"),
    "C16": ("Coq proof of injectivity/plain-entry of the file-name function + exhaustive/random differential "
            "correspondence with DelegatedTargets::filename",
            "Theorems (all role names, all versions, both consistent-snapshot settings) on the Gallina model of "
            "encode_filename/filename; model tied to the code by running both on every name up to length 3 (4 "
            "thorough) over the property's alphabet plus random names to length 64; independent injectivity and "
            "plain-entry oracle on the implementation's own outputs.",
            NOTE + " Modelled not verified: percent_encoding crate; Url::join / Url::path as re-stated in Model/Url.v "
            "(C16_file_url_opens_entry: the file a local client opens for a role's file name is that entry of the metadata "
            "directory; url_join compared with the url crate on every file name of the run).", "5/C16"),
    "C17": ("Coq proof about the carry-over semantics of the editor's update path (entries merge, delegations, extras); "
            "end-to-end correspondence: from_repo -> bump -> add -> sign -> write, metadata compared member by member",
            "Theorem: an update changes nothing but the entries deliberately added (an added name overrides), keeps the "
            "delegation structure with every delegated role's file, and keeps the unrecognised top-level members of targets, "
            "snapshot and timestamp; pre-repair variant refuted (F10). Tied to the code by running the real editor on "
            "generated repositories (custom data, extras at every top level, nested delegated roles, both settings), comparing "
            "old and new metadata after JSON parsing, checking delegated files byte-for-byte and loading the result with the "
            "real client; the model is run on the abstracted views. At the level of documents: parsing a role's file into "
            "the typed representation and serialising it again keeps every member of a covered document, unknown "
            "top-level members and custom data included (C17_reserialise_lossless, from the schema model of C12; the two "
            "levels without a catch-all are those of known finding F7). On the state machine of the editing operations "
            "(Model/EdOps.v, RepositoryEditor and TargetsEditor branch by branch): from_repo followed by any additions, "
            "removals, new versions and expirations hands to sign the delegated roles it loaded - headers, documents, own "
            "delegations, signatures - and the key table unchanged, and changes the top-level targets by exactly the "
            "additions and removals made (C17_update_preserves_tree); two-generation programs run through the real editor "
            "and through the extracted state machine on every run (answers per call, ed_sign_tree on the state reached "
            "against every file written after the update, delegated role files of both generations compared).",
            NOTE + " The model represents verbatim-copied components by identities (hash of the JSON value).", "5/C17"),
    "C19": ("Coq proofs: server extensionality of the update cycle, the cached copy as a server, replay of a successful "
            "cycle on the copy; file-name lemmas for what the cache writes; end-to-end cache / reload runs",
            "Theorems (all repositories, datastores, configurations; model with all repairs): a successful cycle can be repeated "
            "on the cached copy - the files the unchanged source serves under exactly the names the cache writes - by a client "
            "with the same shipped root, configuration and clock and an empty datastore, and yields the very same repository "
            "record (root, timestamp, snapshot, targets with the whole loaded delegation tree); likewise without the root chain "
            "for a client whose shipped root is the trusted root (C19_copy_loads, C19_copy_loads_no_chain); the outcome of a "
            "cycle depends on the server only through the answers to its requests (C19_server_extensionality, every variant of "
            "the model); the files copied as timestamp, snapshot and targets are those whose contents the client trusts; cached "
            "delegated-role names are plain directory entries and pairwise distinct; every root version 1..N is written when "
            "the chain is requested; a target the cache stored is at its destination exactly the signed content, byte for byte "
            "what the source served, every other file untouched, and reads back intact through the verifying adapters in any "
            "chunking (C19_cached_target_reads_back, composing C08 and C06). Partial: that the real cache writes those files "
            "(its own size limits and the presence of every <v>.root.json on the source are not modelled: a cache that fails "
            "is outside the theorems) is established by the runs (odd role and target names incl. names that need "
            "resolution, subsets, root chains, corrupted sources, both settings, directory listings). A client whose "
            "targets base URL names the cache's targets directory finds a cached target under a plain file name, and finds "
            "the signed content (C19_cached_target_served, Model/Url.v: Url::join + FilesystemTransport against Path::join, "
            "compared with the url crate and a real directory on every run). "
            "Known finding: url_encoded_target_name (the complement of the Coq predicate url_plain).",
            NOTE + MODELLED, "5/C19"),
    "C12": ("Coq proofs about a schema-level model of serde parse-and-reserialise (project) and the canonical formatter, "
            "including injectivity of the canonical form; differential correspondence between model and implementation "
            "on mechanically enumerated single-point mutants of really signed documents",
            "Proved for all documents, schemas and signed bytes (16 theorems): an accepted document's retained content has "
            "the signed bytes as canonical form and is the same value up to member order (canonical form injective at every "
            "depth); any mutation that alters the retained value is refused; the four role types are pairwise disjoint; "
            "nothing is lost of covered documents; re-ordering at any depth preserves acceptance; Delegations and "
            "DelegatedRole are the only object levels without a catch-all (C12_lossless_refuted, known finding F7). "
            "Correspondence of project/offer with serde_json::from_str::<Signed<T>> plus Root::verify_role on 5.6k (quick) "
            "or 136k (thorough) mutants with real Ed25519 signatures, comparing the parsed flag, the accepted flag and the "
            "canonical form of the retained signed part.",
            NOTE + " Signatures are symbolic in the model (valid for exactly the signed bytes; one key, threshold 1; "
            "thresholds are C01's subject). Key-identifier checks inside key tables are C13's subject. Dates are modelled "
            "only in the YYYY-MM-DDTHH:MM:SSZ form. The text level (whitespace, escapes: serde_json's reader) is covered by "
            "correspondence only. The swap of two delegated roles that share a key (F8) is outside this check. "
            "Known finding: no_catch_all.", "5/C12"),
    "C18": ("Coq proofs about a Gallina state-machine model of RetryStream (may_retry, build_request, status "
            "classification) run against an arbitrary scripted server, by invariants over the script; differential "
            "correspondence of tough's HttpTransport against a scripted HTTP/1.1 server on loopback, plus an independent "
            "oracle on the implementation's observables",
            "Theorems for all fault scripts, resources and tries (no bound): bytes handed to the consumer are a prefix of the "
            "resource and a stream that ends without error delivered it completely (refuted for the code before the 206 "
            "repair, C18_prefix_refuted; for that code only against servers that keep honouring ranges), transient failures "
            "(5xx, stalls with range support) within the budget end in complete delivery, Range is sent only after a success "
            "response announced Accept-Ranges, 403/404/410 are file-not-found and nothing else is, other 4xx fail with no "
            "further request, requests <= max(1, tries) (pre-repair refuted: tries+1). Tied to the code by driving "
            "HttpTransportBuilder/Transport::fetch against the scripted server: exhaustive scripts for tries 1,2 up to "
            "length tries+2 over 8 entry kinds x Accept-Ranges, sampled for tries 1..4, sizes 0 B..256 KiB, comparing "
            "delivered bytes, outcome class and the server's request log with the extracted model. Partial: reqwest/hyper "
            "behaviour (time-out classification, connections, chunking, timing) is observed, not proved; 256 KiB cases are "
            "predicted by scaling a 64-byte model run.",
            NOTE + " Modelled not verified: reqwest/hyper/tokio; u32/usize wrap-around of current_try/next_byte; stalls are "
            "realised by the client's 1 s time-out (fetches whose duration exceeds their scripted stalls are repeated and "
            "otherwise not judged).", "5/C18"),
    "C20": ("Coq proof by invariant over arbitrary histories of tuftool root commands (induction on the history, per-command "
            "preservation lemmas), self-verification theorem for a plain sign with a vm_compute refutation witness for the "
            "pre-repair code (F13); differential correspondence of the extracted model against the real tuftool binary on "
            "generated command histories, with an independent oracle on the written files",
            "Gallina model of tuftool/src/root.rs (init, add-key, remove-key, set-threshold, set-version, bump-version, "
            "expire, sign with --cross-sign/--ignore-threshold) with SignedRole::new, add_old_signatures, get_root_keys and "
            "Root::verify_role, over an abstract root.json with symbolic signatures; tied to the code on every run by "
            "executing generated histories (<=12 invocations, 1..3 keys Ed25519/ECDSA-P256/RSA, role names incl. "
            "delegated-targets and unknown ones, thresholds, versions to 2^64-1, invalid invocations) step by step against "
            "the binary built from /repo and comparing exit class and the abstracted file after every step with the "
            "extracted model; independent oracle on the real files (JSON shape, tough parse, key ids recomputed with "
            "olpc_cjson+SHA-256, signatures verified with aws-lc-rs, Root::verify_role, bytes unchanged on failure; "
            "replace-by-rename observed with strace). Theorems, for histories of any length from no file or any file "
            "satisfying the invariant, both code variants: the file is loadable, every key-table id is the id of its key, "
            "every signature present is over the current content; every successful subcommand other than sign leaves no "
            "signatures; sign does not change the content; (repaired variant, ids of different keys different) a sign that "
            "succeeded without --ignore-threshold and --cross-sign leaves a file accepted by verify_role under its own root "
            "role - refuted for the pre-repair variant (F13); an error leaves the file unchanged (by construction in the "
            "model, observed on the binary) and failed commands can be erased from a history.",
            NOTE + " Modelled not verified: clap argument parsing, serde (de)serialisation of root.json (the file is "
            "abstracted by the harness), real signature schemes (symbolic), SHA-256 key ids (uninterpreted function, "
            "injectivity a stated premise of C20_sign_selfverifies), HashMap order (never observed), tempfile+rename "
            "atomicity (observed with strace); gen-rsa-key not modelled; the clock value used by init is read back from the "
            "file; tuftool is run with TOKIO_WORKER_THREADS=1.", "5/C20"),
}

PENDING_REASON = "check not yet built in this revision of /verif (design exists in DESIGN.md section 5); no claim made"


def main():
    here = os.path.dirname(os.path.dirname(os.path.abspath(__file__)))
    props = [json.loads(l)["id"] for l in open(os.path.join(here, "properties.jsonl"))]
    checks = []
    for pid in props:
        if pid not in CHECKS:
            continue
        tech, text, note, ref = CHECKS[pid]
        checks.append({
            "property_id": pid,
            "quick_cmd": "./tv check %s --tier quick" % pid,
            "thorough_cmd": "./tv check %s --tier thorough" % pid,
            "evidence_file": "/verif/evidence/%s.json" % pid,
            "replay_cmd_template": "./tv replay %s {path}" % pid,
            "engine": "coq+correspondence",
            "level_claimed": {"category": "proof", "text": text, "design_ref": "DESIGN.md section " + ref},
            "level_note": note,
            "technique": tech,
        })
    man = {
        "version": 1,
        "setup_cmd": "./tv setup",
        "hooks": {
            "guard": "cargo feature verif-hooks on crate tough",
            "enable": "harness/Cargo.toml depends on tough with features = [\"http\", \"verif-hooks\"]",
            "baseline_off_cmd": BASELINE_OFF,
            "source_commits": ["3988d04"],
            "add_only": True,
        },
        "engines": [{
            "name": "coq+correspondence", "path": "/verif/coq, /verif/harness, /verif/checks",
            "serves_properties": sorted(CHECKS),
            "kind_free_text": "machine-checked Coq 8.16 theorems about a hand-written Gallina model; model executed "
                              "(extraction) against the implementation on generated inputs on every run",
        }],
        "checks": checks,
        "not_applicable": [{"property_id": p, "reason": PENDING_REASON} for p in props if p not in CHECKS],
        "notes": "Driver: ./tv. Known findings: known_findings.txt. Seeded mutants: seeded/.",
    }
    json.dump(man, open(os.path.join(here, "MANIFEST.json"), "w"), indent=1)


if __name__ == "__main__":
    main()
