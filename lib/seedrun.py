#!/usr/bin/env python3
"""Run checks against a seeded change: apply seeded/<name>/patch.diff to /repo, run the given checks,
undo the change (git checkout -- .), restore the evidence files, record the outcome in seeded/<name>/result.json.

usage: lib/seedrun.py <name> [--tier quick|thorough] [--seed N] [check ids ... | all]
Never commits anything to /repo. Refuses to start when /repo has uncommitted changes."""
import json, os, subprocess, sys, time

VERIF = os.path.dirname(os.path.dirname(os.path.abspath(__file__)))
REPO = "/repo"


def sh(cmd, **kw):
    return subprocess.run(cmd, shell=True, capture_output=True, text=True, **kw)


def main():
    args = sys.argv[1:]
    name = args.pop(0)
    tier, seed = "quick", "1"
    while args and args[0].startswith("--"):
        o = args.pop(0)
        if o == "--tier":
            tier = args.pop(0)
        elif o == "--seed":
            seed = args.pop(0)
    d = os.path.join(VERIF, "seeded", name)
    meta = json.load(open(os.path.join(d, "meta.json")))
    ids = args or [meta["property"]]
    if ids == ["all"]:
        ids = ["C%02d" % i for i in range(1, 21)]
    if sh("git -C %s status --porcelain --untracked-files=no" % REPO).stdout.strip():
        sys.exit("/repo has uncommitted changes; refusing")
    r = sh("git -C %s apply %s" % (REPO, os.path.join(d, "patch.diff")))
    if r.returncode != 0:
        sys.exit("patch does not apply: " + r.stderr)
    results = {}
    try:
        env = dict(os.environ, VERIF_SEED=seed, VERIF_TIER=tier, CARGO_NET_OFFLINE="true")
        for pid in ids:
            t0 = time.time()
            p = sh("./tv check %s --tier %s" % (pid, tier), cwd=VERIF, env=env)
            out = p.stdout + p.stderr
            viol = [l for l in out.splitlines() if l.startswith("VIOLATION")]
            desc = [l.strip() for l in out.splitlines() if l.startswith("  ") and not l.startswith("   ")][:4]
            results[pid] = {"exit": p.returncode, "violations": len(viol),
                            "no_failing_input": sum("no-failing-input-found" in l for l in viol),
                            "first": desc, "seconds": round(time.time() - t0)}
            # keep the first replay as part of the record
            if viol:
                rp = viol[0].split("replay=")[1].split()[0]
                if os.path.exists(rp):
                    open(os.path.join(d, "replay-%s.json" % pid), "w").write(open(rp).read())
            print(pid, results[pid]["exit"], len(viol), "violations", results[pid]["seconds"], "s", flush=True)
            for l in desc[:2]:
                print("   ", l[:220])
    finally:
        sh("git -C %s checkout -- ." % REPO)
        sh("git checkout -- evidence", cwd=VERIF)
        sh("rm -rf replay", cwd=VERIF)
    rf = os.path.join(d, "result.json")
    old = json.load(open(rf)) if os.path.exists(rf) else {}
    old.setdefault(tier, {}).update(results)
    json.dump(old, open(rf, "w"), indent=1, sort_keys=True)


if __name__ == "__main__":
    main()
