#!/usr/bin/env python3
"""usage: lib/seed_store.py <worktree> <name> "<what I ran to confirm>"   - copies patch.diff, the demonstration and
meta.json of a confirmed seeded change into seeded/<name>/ and records the confirmation in meta.json"""
import json, os, shutil, sys
wt, name, ran = sys.argv[1:4]
d = os.path.join(os.path.dirname(os.path.dirname(os.path.abspath(__file__))), "seeded", name)
os.makedirs(d, exist_ok=True)
so = os.path.join(wt, "seed_out")
shutil.copy(os.path.join(so, "patch.diff"), d)
for f in os.listdir(so):
    if f not in ("patch.diff", "meta.json") and os.path.isfile(os.path.join(so, f)):
        shutil.copy(os.path.join(so, f), d)
m = json.load(open(os.path.join(so, "meta.json")))
m["confirmed_here"] = ran
json.dump(m, open(os.path.join(d, "meta.json"), "w"), indent=2)
print(sorted(os.listdir(d)))
