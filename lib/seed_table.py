#!/usr/bin/env python3
"""Prints the table of DESIGN.md section 8.6 from seeded/*/meta.json and result.json."""
import glob, json, os
here = os.path.dirname(os.path.dirname(os.path.abspath(__file__)))
print("| seeded change | what it is | checks run (quick tier) | outcome |")
print("|---|---|---|---|")
for d in sorted(glob.glob(os.path.join(here, "seeded", "*"))):
    name = os.path.basename(d)
    meta = json.load(open(os.path.join(d, "meta.json")))
    res = json.load(open(os.path.join(d, "result.json"))) if os.path.exists(os.path.join(d, "result.json")) else {}
    note = open(os.path.join(d, "note.txt")).read().strip() if os.path.exists(os.path.join(d, "note.txt")) else ""
    cells = []
    for tier in ("quick", "thorough"):
        for pid, r in sorted(res.get(tier, {}).items()):
            if r["exit"] == 0:
                cells.append("%s: not noticed" % pid)
            else:
                spec = [l for l in r["first"] if "spec:" in l]
                cells.append("%s: VIOLATION%s" % (pid, " with failing input" if spec else " (correspondence broken, no-failing-input-found)"))
    summ = meta.get("summary", "").replace("|", "/").replace("\n", " ")
    if len(summ) > 260:
        summ = summ[:257] + "..."
    print("| `%s` | %s | %s | %s |" % (name, summ, "; ".join(cells), note.replace("\n", " ")))
