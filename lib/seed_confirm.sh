#!/bin/bash
# usage: seed_confirm.sh <worktree> <crate> <demo path relative to worktree>
# Confirms a seeded change in its scratch worktree: (a) crate tests pass with the change, (b) demo fails with it,
# (c) demo passes without it.
set -u; CARGO_EXTRA=${CARGO_EXTRA:-}
wt=$1; crate=$2; demo=$3
cd "$wt" || exit 2
export CARGO_NET_OFFLINE=true
echo "== (b) demo with change"
cargo test -p $crate --offline $CARGO_EXTRA --test seed_demo 2>&1 | grep -E "^test result|^test .*(FAILED|ok)$" | head -20
echo "== (a) suite with change, demo aside"
mv $demo /tmp/$(basename $wt).demo.hold
cargo test -p $crate --offline $CARGO_EXTRA 2>&1 | grep -E "^test result" | awk '{p+=$4; f+=$6} END {print "passed",p,"failed",f}'
mv /tmp/$(basename $wt).demo.hold $demo
echo "== (c) demo without change"
git stash push -q -- $(git diff --name-only | grep -v seed_demo)
cargo test -p $crate --offline $CARGO_EXTRA --test seed_demo 2>&1 | grep -E "^test result"
git stash pop -q
git status --short | head -5
