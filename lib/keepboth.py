#!/usr/bin/env python3
"""Resolve git conflict markers in the given files by keeping both sides (ours first)."""
import sys, re
for f in sys.argv[1:]:
    out = []
    for line in open(f):
        if line.startswith('<<<<<<< ') or line.startswith('=======') or line.startswith('>>>>>>> '):
            continue
        out.append(line)
    open(f, 'w').write(''.join(out))
