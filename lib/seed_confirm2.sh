#!/bin/bash
# usage: seed_confirm2.sh <worktree> <crate> [test-dir]   (no git stash: the stash is shared between worktrees)
# (b) demo fails with the change, (a) crate tests pass with the change (demo aside), (c) demo passes without it.
set -u
wt=$1; crate=$2; tdir=${3:-$crate/tests}
cd "$wt" || exit 2
export CARGO_NET_OFFLINE=true
J=${J:-6}
test -f seed_out/patch.diff || { echo "no patch"; exit 2; }
echo "== (b) demo with change"
cargo test -j $J -p $crate --offline --test seed_demo 2>&1 | grep -E "^test result|^test .*(FAILED|ok)$" | head -20
echo "== (a) suite with change, demo aside"
mv $tdir/seed_demo.rs /tmp/$(basename $wt).demo.hold
cargo test -j $J -p $crate --offline 2>&1 | grep -E "^test result" | awk '{p+=$4; f+=$6} END {print "passed",p,"failed",f}'
mv /tmp/$(basename $wt).demo.hold $tdir/seed_demo.rs
echo "== (c) demo without change"
git apply -R seed_out/patch.diff || exit 3
cargo test -j $J -p $crate --offline --test seed_demo 2>&1 | grep -E "^test result"
git apply seed_out/patch.diff
git status --short | head -5
