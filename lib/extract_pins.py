"""One-off helper (run by hand when a statement is changed on purpose): copies the statement of every
Theorem in coq/Properties/*.v into checks/pins.json. The proof gate then checks, on every run, that
each theorem still has exactly the pinned statement (Check (name : statement)) - so a statement cannot be
weakened by editing the .v file alone."""
import glob, json, os, re, sys
here = os.path.dirname(os.path.dirname(os.path.abspath(__file__)))
pins = {}
for p in sorted(glob.glob(os.path.join(here, "coq", "Properties", "C*.v"))):
    pid = os.path.basename(p)[:-2]
    src = open(p).read()
    # strip comments
    out, depth, i = [], 0, 0
    while i < len(src):
        if src.startswith("(*", i):
            depth += 1; i += 2
        elif src.startswith("*)", i) and depth:
            depth -= 1; i += 2
        else:
            if not depth:
                out.append(src[i])
            i += 1
    src = "".join(out)
    items = []
    for m in re.finditer(r"(?:Theorem|Example)\s+(\w+)\s*:\s*(.*?)\.\s*\nProof\.", src, re.S):
        items.append([m.group(1), " ".join(m.group(2).split())])
    pins[pid] = items
json.dump(pins, open(os.path.join(here, "checks", "pins.json"), "w"), indent=1)
print({k: len(v) for k, v in pins.items()})
