#!/usr/bin/env python3
"""Prints the status-at-a-glance table of DESIGN.md section 8 from pins.json, the evidence files, known_findings.txt and seeded/."""
import json, os, re
V = os.path.dirname(os.path.dirname(os.path.abspath(__file__)))
pins = json.load(open(os.path.join(V, "checks", "pins.json")))
kf = {}
for l in open(os.path.join(V, "known_findings.txt")):
    m = re.match(r"(finding|fixed):\s+property=(\S+)", l)
    if m:
        kf.setdefault(m.group(2), {"finding": 0, "fixed": 0})[m.group(1)] += 1
seeds = {}
for d in sorted(os.listdir(os.path.join(V, "seeded"))):
    meta = json.load(open(os.path.join(V, "seeded", d, "meta.json")))
    seeds.setdefault(meta["property"], []).append(d)
print("| property | pinned theorems | cases in the quick tier | defects found (8.3, 8.4) | seeded changes run against it (8.6) |")
print("|---|---|---|---|---|")
for i in range(1, 21):
    p = "C%02d" % i
    e = json.load(open(os.path.join(V, "evidence", p + ".json")))
    k = kf.get(p, {"finding": 0, "fixed": 0})
    print("| %s | %d | %d | %d repaired, %d known | %s |" % (p, len(pins.get(p, [])), e["coverage"]["evaluations"],
                                                          k["fixed"], k["finding"], ", ".join(seeds.get(p, [])) or "-"))
